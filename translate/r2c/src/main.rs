//! translate/r2c: expression-level translator from a configured list of small pure Rust functions of
//! embedded-graphics to Gallina definitions (coq/Gen/Src*.v).  See README.md for the subset, the
//! configuration format and the fail-closed rules.
//!
//! usage: r2c <repo root> <functions.txt> <output dir (coq/Gen)>
#![allow(dead_code, unused_mut)]
mod calls;
mod effects;
mod expr;
mod stmt;
mod tr;
mod types;

use std::collections::{BTreeMap, BTreeSet};
use std::fmt::Write as _;
use std::path::Path;
use syn::spanned::Spanned;
use syn::*;
use tr::*;
use types::*;

struct Source {
    text: String,
    file: File,
}

fn fnv1a(s: &str) -> u64 {
    let mut h: u64 = 0xcbf29ce484222325;
    for b in s.as_bytes() {
        h ^= *b as u64;
        h = h.wrapping_mul(0x100000001b3);
    }
    h
}

fn is_test_cfg(attrs: &[Attribute]) -> bool {
    attrs.iter().any(|a| {
        if !a.path().is_ident("cfg") {
            return false;
        }
        let s = a.meta.require_list().map(|l| l.tokens.to_string()).unwrap_or_default();
        let s: String = s.chars().filter(|c| !c.is_whitespace()).collect();
        s == "test" || s.starts_with("all(test")
    })
}

/// every item of the file, items of non-test inline modules included
fn all_items(items: &[Item]) -> Vec<&Item> {
    let mut out = vec![];
    for i in items {
        match i {
            Item::Mod(m) => {
                if is_test_cfg(&m.attrs) {
                    continue;
                }
                if let Some((_, sub)) = &m.content {
                    out.extend(all_items(sub));
                }
            }
            other => out.push(other),
        }
    }
    out
}

fn file_defs_of(f: &File) -> FileDefs {
    let mut d = FileDefs::default();
    for it in all_items(&f.items) {
        match it {
            Item::Fn(x) => {
                d.fns.insert(x.sig.ident.to_string());
            }
            Item::Const(x) => {
                d.consts.insert(x.ident.to_string());
            }
            Item::Static(x) => {
                d.consts.insert(x.ident.to_string());
            }
            Item::Struct(x) => {
                d.types.insert(x.ident.to_string());
            }
            Item::Enum(x) => {
                d.types.insert(x.ident.to_string());
            }
            Item::Type(x) => {
                d.types.insert(x.ident.to_string());
            }
            Item::Impl(im) if im.trait_.is_some() => {
                if let Some(t) = type_last_ident(&im.self_ty) {
                    for ii in im.items.iter() {
                        if let ImplItem::Type(a) = ii {
                            let it = match strip_group(&a.ty) {
                                Type::Path(p) if p.qself.is_none() && p.path.segments.len() <= 2 && p.path.segments.iter().all(|s| matches!(s.arguments, PathArguments::None)) => Some(p.path.segments.iter().map(|s| s.ident.to_string()).collect::<Vec<_>>().join("::")),
                                _ => None,
                            };
                            let key = (t.clone(), a.ident.to_string());
                            let v = match (d.assoc_types.get(&key), it) {
                                (None, Some(i)) => Some(i),
                                (Some(Some(old)), Some(i)) if *old == i => Some(i),
                                _ => None,
                            };
                            d.assoc_types.insert(key, v);
                        }
                    }
                }
            }
            Item::Impl(im) if im.trait_.is_none() => {
                if let Some(t) = type_last_ident(&im.self_ty) {
                    for ii in im.items.iter() {
                        if let ImplItem::Fn(f) = ii {
                            d.inherent.insert((t.clone(), f.sig.ident.to_string()));
                        }
                    }
                }
            }
            _ => {}
        }
    }
    d
}

/// the traits named in `#[derive(..)]` attributes
fn derive_list(attrs: &[Attribute]) -> BTreeSet<String> {
    let mut out = BTreeSet::new();
    for a in attrs {
        if a.path().is_ident("derive") {
            if let Ok(l) = a.meta.require_list() {
                let mut ids = BTreeSet::new();
                idents_of(l.tokens.clone(), &mut ids);
                out.extend(ids);
            }
        }
    }
    out
}

fn type_last_ident(t: &Type) -> Option<String> {
    match t {
        Type::Path(p) => p.path.segments.last().map(|s| s.ident.to_string()),
        Type::Reference(r) => type_last_ident(&r.elem),
        Type::Group(g) => type_last_ident(&g.elem),
        Type::Paren(g) => type_last_ident(&g.elem),
        _ => None,
    }
}

pub fn strip_group(t: &Type) -> &Type {
    match t {
        Type::Group(g) => strip_group(&g.elem),
        Type::Paren(g) => strip_group(&g.elem),
        t => t,
    }
}

fn tokens_nospace<T: quote::ToTokens>(t: &T) -> String {
    t.to_token_stream().to_string().chars().filter(|c| !c.is_whitespace()).collect()
}

/// `Add<Size>` -> ("Add", Some("Size"))
fn split_trait(s: &str) -> (String, Option<String>) {
    match s.find('<') {
        Some(i) => (s[..i].to_string(), Some(s[i + 1..s.len() - 1].to_string())),
        None => (s.to_string(), None),
    }
}

/// split `A::B<C::D>::e` at top-level `::`
fn split_spec(s: &str) -> Vec<String> {
    let mut out = vec![];
    let mut depth = 0;
    let mut cur = String::new();
    let cs: Vec<char> = s.chars().collect();
    let mut i = 0;
    while i < cs.len() {
        let c = cs[i];
        if c == '<' {
            depth += 1;
        }
        if c == '>' {
            depth -= 1;
        }
        if depth == 0 && c == ':' && i + 1 < cs.len() && cs[i + 1] == ':' {
            out.push(std::mem::take(&mut cur));
            i += 2;
            continue;
        }
        cur.push(c);
        i += 1;
    }
    out.push(cur);
    out
}

/// identifiers occurring in a token stream
fn idents_of(ts: proc_macro2::TokenStream, out: &mut BTreeSet<String>) {
    for t in ts {
        match t {
            proc_macro2::TokenTree::Ident(i) => {
                out.insert(i.to_string());
            }
            proc_macro2::TokenTree::Group(g) => idents_of(g.stream(), out),
            _ => {}
        }
    }
}

/// one arm of a macro_rules! definition with every `$name` replaced by the identifier `M_name` (or by the tokens
/// bound in `bind`) and every repetition `$( .. ) sep *` replaced by one copy of its content
fn expand_template(ts: proc_macro2::TokenStream, bind: &BTreeMap<String, proc_macro2::TokenStream>, prefix: &str) -> proc_macro2::TokenStream {
    use proc_macro2::{Group, Ident, TokenStream, TokenTree};
    let toks: Vec<TokenTree> = ts.into_iter().collect();
    let mut out = TokenStream::new();
    let mut i = 0;
    while i < toks.len() {
        match &toks[i] {
            TokenTree::Punct(p) if p.as_char() == '$' && i + 1 < toks.len() => match &toks[i + 1] {
                TokenTree::Ident(id) => {
                    let n = id.to_string();
                    match bind.get(&n) {
                        Some(b) => {
                            // like a macro fragment: an invisible group keeps `as u32 << n` from parsing as `u32<..`
                            let mut g = Group::new(proc_macro2::Delimiter::None, b.clone());
                            g.set_span(id.span());
                            out.extend(std::iter::once(TokenTree::Group(g)))
                        }
                        None => out.extend(std::iter::once(TokenTree::Ident(Ident::new(&format!("{}{}", prefix, n), id.span())))),
                    }
                    i += 2;
                }
                TokenTree::Group(g) => {
                    out.extend(expand_template(g.stream(), bind, prefix));
                    i += 2;
                    // optional separator, then the repetition operator
                    let is_rep = |t: &TokenTree| matches!(t, TokenTree::Punct(p) if matches!(p.as_char(), '*' | '+' | '?'));
                    if i < toks.len() && is_rep(&toks[i]) {
                        i += 1;
                    } else if i + 1 < toks.len() && matches!(&toks[i], TokenTree::Punct(_)) && is_rep(&toks[i + 1]) {
                        i += 2;
                    }
                }
                _ => {
                    out.extend(std::iter::once(toks[i].clone()));
                    i += 1;
                }
            },
            TokenTree::Group(g) => {
                let mut ng = Group::new(g.delimiter(), expand_template(g.stream(), bind, prefix));
                ng.set_span(g.span());
                out.extend(std::iter::once(TokenTree::Group(ng)));
                i += 1;
            }
            t => {
                out.extend(std::iter::once(t.clone()));
                i += 1;
            }
        }
    }
    out
}

struct FoundFn<'s> {
    sig: &'s Signature,
    block: &'s Block,
    impl_generics: Option<&'s Generics>,
    impl_items: Option<&'s [ImplItem]>,
    impl_self: Option<&'s Type>,
}

fn find_fn<'s>(src: &'s Source, self_ty: Option<&str>, trait_spec: Option<&str>, name: &str) -> R<FoundFn<'s>> {
    let mut found: Vec<FoundFn<'s>> = vec![];
    for it in all_items(&src.file.items) {
        match (it, self_ty) {
            (Item::Fn(f), None) => {
                if f.sig.ident == name && !is_test_cfg(&f.attrs) {
                    found.push(FoundFn { sig: &f.sig, block: &f.block, impl_generics: None, impl_items: None, impl_self: None });
                }
            }
            (Item::Impl(im), Some(st)) => {
                if is_test_cfg(&im.attrs) || type_last_ident(&im.self_ty).as_deref() != Some(st.split('<').next().unwrap().rsplit('.').next().unwrap()) {
                    continue;
                }
                let ok = match (&im.trait_, trait_spec) {
                    (None, None) => true,
                    (Some((_, p, _)), Some(ts)) => {
                        let (tn, targ) = split_trait(ts);
                        let seg = p.segments.last().unwrap();
                        if seg.ident != tn {
                            false
                        } else {
                            match (&seg.arguments, targ) {
                                (PathArguments::None, None) => true,
                                (PathArguments::AngleBracketed(a), Some(x)) => a.args.len() == 1 && tokens_nospace(&a.args[0]) == x,
                                _ => false,
                            }
                        }
                    }
                    _ => false,
                };
                if !ok {
                    continue;
                }
                for ii in im.items.iter() {
                    if let ImplItem::Fn(f) = ii {
                        if f.sig.ident == name && !is_test_cfg(&f.attrs) {
                            found.push(FoundFn { sig: &f.sig, block: &f.block, impl_generics: Some(&im.generics), impl_items: Some(&im.items), impl_self: Some(&*im.self_ty) });
                        }
                    }
                }
            }
            _ => {}
        }
    }
    match found.len() {
        1 => Ok(found.pop().unwrap()),
        0 => Err("function not found in the file (moved, renamed or now macro-generated?)".into()),
        n => Err(format!("{} definitions match", n)),
    }
}

struct FnJob {
    file: String,
    self_ty: Option<String>,
    /// the self type as written in the impl header (differs from self_ty for an instantiated blanket impl)
    find_self_ty: Option<String>,
    trait_spec: Option<String>,
    name: String,
    info_idx: usize,
    module: usize,
    /// `inst=P:Type,..`: type parameters of the function instantiated with configured types (a monomorphic instance)
    inst: BTreeMap<String, Ty>,
}

enum Decl {
    Adt(String),
    Const(usize, String, String), // index into consts, file, expr translated text
    Fn(usize),
}

struct Module {
    name: String,
    imports: Vec<String>,
    decls: Vec<Decl>,
    errors: Vec<String>,
}

/// one `macro .. $p=tokens` binding, checked against the actual invocations at the end of the configuration
struct MacroBinding {
    file: String,
    mac: String,
    arm: usize,
    param: String,
    bound: String,
    module: usize,
    inst: String,
}

/// split a token stream at top-level commas
fn split_commas(ts: proc_macro2::TokenStream) -> Vec<Vec<proc_macro2::TokenTree>> {
    let mut out = vec![vec![]];
    for t in ts {
        match &t {
            proc_macro2::TokenTree::Punct(p) if p.as_char() == ',' => out.push(vec![]),
            _ => out.last_mut().unwrap().push(t),
        }
    }
    if out.last().map(|l| l.is_empty()).unwrap_or(false) {
        out.pop();
    }
    out
}

/// where `$name` sits in a macro pattern: indices of comma-separated fragments, descending into the group of a fragment
/// the `$name`s of one comma-separated fragment of a macro pattern, in order (top level of the fragment only)
fn frag_params(frag: &[proc_macro2::TokenTree]) -> Vec<String> {
    let mut out = vec![];
    for (j, t) in frag.iter().enumerate() {
        if let proc_macro2::TokenTree::Punct(p) = t {
            if p.as_char() == '$' {
                if let Some(proc_macro2::TokenTree::Ident(id)) = frag.get(j + 1) {
                    out.push(id.to_string());
                }
            }
        }
    }
    out
}

/// path of comma-fragment indices to `$name`; when the fragment holds several parameters separated by literal `:`
/// (`$a:ident : $b:ident`), a last element 1000 + k says "the k-th `:`-separated part"
fn locate_param(pat: proc_macro2::TokenStream, name: &str) -> Option<Vec<usize>> {
    for (i, frag) in split_commas(pat).into_iter().enumerate() {
        let ps = frag_params(&frag);
        if let Some(k) = ps.iter().position(|p| p == name) {
            return Some(if ps.len() > 1 { vec![i, 1000 + k] } else { vec![i] });
        }
        for t in frag.iter() {
            if let proc_macro2::TokenTree::Group(g) = t {
                if let Some(mut rest) = locate_param(g.stream(), name) {
                    let mut p = vec![i];
                    p.append(&mut rest);
                    return Some(p);
                }
            }
        }
    }
    None
}

/// split at single `:` tokens (not `::`)
fn split_single_colons(frag: &[proc_macro2::TokenTree]) -> Vec<Vec<proc_macro2::TokenTree>> {
    let mut out = vec![vec![]];
    let mut i = 0;
    while i < frag.len() {
        if let proc_macro2::TokenTree::Punct(p) = &frag[i] {
            if p.as_char() == ':' {
                if p.spacing() == proc_macro2::Spacing::Joint && matches!(frag.get(i + 1), Some(proc_macro2::TokenTree::Punct(q)) if q.as_char() == ':') {
                    out.last_mut().unwrap().push(frag[i].clone());
                    out.last_mut().unwrap().push(frag[i + 1].clone());
                    i += 2;
                    continue;
                }
                out.push(vec![]);
                i += 1;
                continue;
            }
        }
        out.last_mut().unwrap().push(frag[i].clone());
        i += 1;
    }
    out
}

fn extract_arg(args: proc_macro2::TokenStream, path: &[usize]) -> Option<Vec<proc_macro2::TokenTree>> {
    let frags = split_commas(args);
    let frag = frags.get(path[0])?.clone();
    if path.len() == 1 {
        return Some(frag);
    }
    if path[1] >= 1000 {
        let parts = split_single_colons(&frag);
        return parts.get(path[1] - 1000).cloned();
    }
    for t in frag.iter() {
        if let proc_macro2::TokenTree::Group(g) = t {
            return extract_arg(g.stream(), &path[1..]);
        }
    }
    None
}

/// arms of a macro_rules! definition: (pattern, body)
fn macro_arms(m: &ItemMacro) -> Vec<(proc_macro2::TokenStream, proc_macro2::TokenStream)> {
    let toks: Vec<proc_macro2::TokenTree> = m.mac.tokens.clone().into_iter().collect();
    let mut out = vec![];
    let mut i = 0;
    while i + 3 < toks.len() {
        if let (proc_macro2::TokenTree::Group(p), proc_macro2::TokenTree::Punct(a), proc_macro2::TokenTree::Punct(b), proc_macro2::TokenTree::Group(body)) = (&toks[i], &toks[i + 1], &toks[i + 2], &toks[i + 3]) {
            if a.as_char() == '=' && b.as_char() == '>' {
                out.push((p.stream(), body.stream()));
                i += 4;
                if i < toks.len() && matches!(&toks[i], proc_macro2::TokenTree::Punct(p) if p.as_char() == ';') {
                    i += 1;
                }
                continue;
            }
        }
        break;
    }
    out
}

/// invocations `name!( .. )` inside a token stream (recursively)
fn find_invocations(ts: proc_macro2::TokenStream, name: &str, out: &mut Vec<proc_macro2::TokenStream>) {
    let toks: Vec<proc_macro2::TokenTree> = ts.into_iter().collect();
    for i in 0..toks.len() {
        if let proc_macro2::TokenTree::Ident(id) = &toks[i] {
            if id == name {
                if let (Some(proc_macro2::TokenTree::Punct(p)), Some(proc_macro2::TokenTree::Group(g))) = (toks.get(i + 1), toks.get(i + 2)) {
                    if p.as_char() == '!' {
                        out.push(g.stream());
                    }
                }
            }
        }
        if let proc_macro2::TokenTree::Group(g) = &toks[i] {
            find_invocations(g.stream(), name, out);
        }
    }
}

struct Driver {
    macro_bindings: Vec<MacroBinding>,
    /// file of the declaration being processed (tie-break for type names)
    cur_file: String,
    repo: String,
    sources: BTreeMap<String, Source>,
    tables: Tables,
    modules: Vec<Module>,
    jobs: Vec<FnJob>,
}

impl Driver {
    fn load(&mut self, file: &str) -> R<()> {
        self.cur_file = file.to_string();
        if self.sources.contains_key(file) {
            return Ok(());
        }
        let p = Path::new(&self.repo).join(file);
        let text = std::fs::read_to_string(&p).map_err(|e| format!("{}: {}", p.display(), e))?;
        let parsed = syn::parse_file(&text).map_err(|e| format!("{}: parse error: {}", file, e))?;
        self.tables.file_defs.insert(file.to_string(), file_defs_of(&parsed));
        self.sources.insert(file.to_string(), Source { text, file: parsed });
        Ok(())
    }

    /// `macro <file> <name> <arm> as <vfile> [$x=tokens ..]`: the arm's body becomes a virtual source file
    fn add_macro(&mut self, file: &str, name: &str, arm: usize, vfile: &str, binds: &[&str]) -> R<()> {
        self.load(file)?;
        let src = &self.sources[file];
        let mut mac: Option<&ItemMacro> = None;
        for it in all_items(&src.file.items) {
            if let Item::Macro(m) = it {
                if m.mac.path.is_ident("macro_rules") && m.ident.as_ref().map(|i| i == name).unwrap_or(false) {
                    mac = Some(m);
                }
            }
        }
        let mac = mac.ok_or_else(|| format!("macro_rules! {} not found in {}", name, file))?;
        // arms: (pattern) => { body } ;
        let toks: Vec<proc_macro2::TokenTree> = mac.mac.tokens.clone().into_iter().collect();
        let mut bodies = vec![];
        let mut i = 0;
        while i + 3 < toks.len() + 0 {
            if let (proc_macro2::TokenTree::Group(_), proc_macro2::TokenTree::Punct(a), proc_macro2::TokenTree::Punct(b), proc_macro2::TokenTree::Group(body)) = (&toks[i], &toks[i + 1], &toks[i + 2], &toks[i + 3]) {
                if a.as_char() == '=' && b.as_char() == '>' {
                    bodies.push(body.stream());
                    i += 4;
                    if i < toks.len() && matches!(&toks[i], proc_macro2::TokenTree::Punct(p) if p.as_char() == ';') {
                        i += 1;
                    }
                    continue;
                }
            }
            return Err(format!("macro_rules! {}: cannot split into arms", name));
        }
        let body = bodies.get(arm).cloned().ok_or_else(|| format!("macro_rules! {} has {} arms, arm {} requested", name, bodies.len(), arm))?;
        let mut bind = BTreeMap::new();
        let mut prefix = "M_".to_string();
        for b in binds {
            if let Some(p) = b.strip_prefix("prefix=") {
                prefix = p.to_string();
                continue;
            }
            let (k, v) = b.split_once('=').ok_or_else(|| format!("macro binding `{}` is not $name=tokens", b))?;
            let ts: proc_macro2::TokenStream = v.replace('~', " ").parse().map_err(|e| format!("binding `{}`: {}", b, e))?;
            bind.insert(k.trim_start_matches('$').to_string(), ts);
            let module = self.modules.len().saturating_sub(1);
            self.macro_bindings.push(MacroBinding { file: file.to_string(), mac: name.to_string(), arm, param: k.trim_start_matches('$').to_string(), bound: v.replace('~', "").chars().filter(|c| !c.is_whitespace()).collect(), module, inst: vfile.to_string() });
        }
        let expanded = expand_template(body, &bind, &prefix);
        let parsed: File = syn::parse2(expanded).map_err(|e| format!("macro_rules! {} arm {}: the instantiated body does not parse as items: {}", name, arm, e))?;
        let text = src.text.clone();
        self.tables.file_defs.insert(vfile.to_string(), file_defs_of(&parsed));
        self.sources.insert(vfile.to_string(), Source { text, file: parsed });
        Ok(())
    }

    /// the concrete argument texts that reach parameter `$param` of arm `arm` of macro `mac` in `file`
    fn macro_actuals(&self, file: &str, mac: &str, arm: usize, param: &str, depth: usize, out: &mut BTreeSet<String>) -> R<()> {
        if depth > 6 {
            return Err(format!("macro_rules! {}: invocation chain too deep to check", mac));
        }
        let src = &self.sources[file];
        let mut defs: Vec<&ItemMacro> = vec![];
        for it in all_items(&src.file.items) {
            if let Item::Macro(m) = it {
                if m.mac.path.is_ident("macro_rules") {
                    defs.push(m);
                }
            }
        }
        let def = defs.iter().find(|m| m.ident.as_ref().map(|i| i == mac).unwrap_or(false)).ok_or_else(|| format!("macro_rules! {} not found", mac))?;
        let arms = macro_arms(def);
        let (pat, _) = arms.get(arm).ok_or_else(|| format!("macro_rules! {}: no arm {}", mac, arm))?;
        let path = locate_param(pat.clone(), param).ok_or_else(|| format!("macro_rules! {} arm {}: no parameter ${}", mac, arm, param))?;
        let arity = split_commas(pat.clone()).len();
        // invocation sites: top-level items, and bodies of macro_rules! arms (where the argument may be a metavariable)
        let mut sites: Vec<(proc_macro2::TokenStream, Option<(String, usize)>)> = vec![];
        for it in all_items(&src.file.items) {
            if let Item::Macro(m) = it {
                if m.mac.path.is_ident(mac) {
                    sites.push((m.mac.tokens.clone(), None));
                }
            }
        }
        for m in defs.iter() {
            let mname = m.ident.as_ref().map(|i| i.to_string()).unwrap_or_default();
            for (ai, (_, body)) in macro_arms(m).into_iter().enumerate() {
                let mut inv = vec![];
                find_invocations(body, mac, &mut inv);
                for a in inv {
                    sites.push((a, Some((mname.clone(), ai))));
                }
            }
        }
        for (args, ctx) in sites {
            if split_commas(args.clone()).len() != arity {
                continue; // another arm
            }
            let a = match extract_arg(args, &path) {
                Some(a) => a,
                None => return Err(format!("macro_rules! {}: cannot locate the argument for ${} in an invocation", mac, param)),
            };
            // `$q` inside another macro: follow it
            if a.len() == 2 {
                if let (proc_macro2::TokenTree::Punct(p), proc_macro2::TokenTree::Ident(q)) = (&a[0], &a[1]) {
                    if p.as_char() == '$' {
                        match &ctx {
                            Some((om, oa)) => {
                                self.macro_actuals(file, om, *oa, &q.to_string(), depth + 1, out)?;
                                continue;
                            }
                            None => return Err(format!("macro_rules! {}: metavariable argument outside a macro", mac)),
                        }
                    }
                }
            }
            let txt: String = a.iter().map(|t| t.to_string()).collect::<Vec<_>>().join("").chars().filter(|c| !c.is_whitespace()).collect();
            out.insert(txt);
        }
        Ok(())
    }

    /// direct (top-level) invocations: the TUPLE of the arguments of the bound parameters must be that of one instance
    fn check_macro_tuples(&mut self) {
        let mut insts: BTreeMap<(String, String, usize), BTreeMap<String, (BTreeMap<String, String>, usize)>> = BTreeMap::new();
        for b in self.macro_bindings.iter() {
            let e = insts.entry((b.file.clone(), b.mac.clone(), b.arm)).or_default().entry(b.inst.clone()).or_insert((BTreeMap::new(), b.module));
            e.0.insert(b.param.clone(), b.bound.clone());
        }
        let mut errs: Vec<(usize, String)> = vec![];
        for ((file, mac, arm), by_inst) in insts {
            let src = &self.sources[&file];
            let def = all_items(&src.file.items).into_iter().find_map(|it| match it {
                Item::Macro(m) if m.mac.path.is_ident("macro_rules") && m.ident.as_ref().map(|i| *i == mac).unwrap_or(false) => Some(m),
                _ => None,
            });
            let def = match def {
                Some(d) => d,
                None => continue,
            };
            let arms = macro_arms(def);
            let pat = match arms.get(arm) {
                Some((p, _)) => p.clone(),
                None => continue,
            };
            let arity = split_commas(pat.clone()).len();
            let module = by_inst.values().next().map(|x| x.1).unwrap_or(0);
            let params: BTreeSet<String> = by_inst.values().flat_map(|(m, _)| m.keys().cloned()).collect();
            for it in all_items(&src.file.items) {
                let m = match it {
                    Item::Macro(m) if m.mac.path.is_ident(&mac) => m,
                    _ => continue,
                };
                if split_commas(m.mac.tokens.clone()).len() != arity {
                    continue;
                }
                let mut actual: BTreeMap<String, String> = BTreeMap::new();
                for p in params.iter() {
                    if let Some(path) = locate_param(pat.clone(), p) {
                        if let Some(a) = extract_arg(m.mac.tokens.clone(), &path) {
                            let txt: String = a.iter().map(|t| t.to_string()).collect::<Vec<_>>().join("").chars().filter(|c| !c.is_whitespace()).collect();
                            actual.insert(p.clone(), txt);
                        }
                    }
                }
                let covered = by_inst.values().any(|(b, _)| b.iter().all(|(k, v)| actual.get(k) == Some(v)));
                if !covered {
                    let shown: Vec<String> = actual.iter().map(|(k, v)| format!("${}={}", k, v)).collect();
                    errs.push((module, format!("{}: macro_rules! {} arm {}: the invocation with {} is not the instance of any configured `macro` line (add an instance with exactly these bindings)", file, mac, arm, shown.join(" "))));
                }
            }
        }
        for (m, e) in errs {
            self.modules[m].errors.push(e);
        }
    }

    /// every actual argument of a bound macro parameter must be covered by the binding of some configured instance
    fn check_macro_bindings(&mut self) {
        self.check_macro_tuples();
        let mut groups: BTreeMap<(String, String, usize, String), (BTreeSet<String>, usize)> = BTreeMap::new();
        for b in self.macro_bindings.iter() {
            let e = groups.entry((b.file.clone(), b.mac.clone(), b.arm, b.param.clone())).or_insert((BTreeSet::new(), b.module));
            e.0.insert(b.bound.clone());
        }
        for ((file, mac, arm, param), (bound, module)) in groups {
            let mut actual = BTreeSet::new();
            let r = self.macro_actuals(&file, &mac, arm, &param, 0, &mut actual);
            let msg = match r {
                Err(e) => Some(e),
                Ok(()) => {
                    let missing: Vec<String> = actual.iter().filter(|a| !bound.contains(*a)).cloned().collect();
                    if missing.is_empty() {
                        None
                    } else {
                        Some(format!("macro_rules! {} arm {}: parameter ${} is bound to {{{}}} but the source invokes it with {{{}}}: the template is not the translation of those instances (add an instance per value)", mac, arm, param, bound.iter().cloned().collect::<Vec<_>>().join(", "), missing.join(", ")))
                    }
                }
            };
            if let Some(m) = msg {
                self.modules[module].errors.push(format!("{}: {}", file, m));
            }
        }
    }

    /// the macro parameters a definition depends on: those it mentions, and those of the template definitions it mentions
    fn mvars_of(&self, ts: proc_macro2::TokenStream, self_ty: Option<&str>, file: &str) -> Vec<String> {
        let mut ids = BTreeSet::new();
        idents_of(ts, &mut ids);
        if let Some(st) = self_ty {
            ids.insert(st.to_string());
        }
        let mut used: BTreeSet<String> = BTreeSet::new();
        for m in self.tables.mvars.iter() {
            if ids.contains(&m.name) {
                used.insert(m.name.clone());
            }
        }
        // abstract types: their row parameter
        for (n, x) in self.tables.externs.iter() {
            if ids.contains(n) {
                if let Some(r) = &x.row {
                    used.insert(r.clone());
                }
            }
        }
        for f in self.tables.fns.iter() {
            if !f.mvars.is_empty() && f.file == file && ids.contains(&f.name) {
                used.extend(f.mvars.iter().cloned());
            }
        }
        for c in self.tables.consts.iter() {
            if !c.mvars.is_empty() && c.file == file && ids.contains(c.key.rsplit("::").next().unwrap()) {
                used.extend(c.mvars.iter().cloned());
            }
        }
        self.tables.mvars.iter().filter(|m| used.contains(&m.name)).map(|m| m.name.clone()).collect()
    }

    fn mvar_binders(&self, mvars: &[String], tr: &mut Tr, env: &mut Env) -> R<String> {
        let mut b = String::new();
        for n in mvars {
            let m = self.tables.mvars.iter().find(|m| m.name == *n).unwrap();
            let c = tr.fresh(n);
            let t = match &m.coq_ty {
                Some(t) => t.clone(),
                None => self.tables.coq_ty(&m.ty)?,
            };
            write!(b, " ({} : {})", c, t).unwrap();
            env.push(n, var(c, m.ty.clone()));
        }
        Ok(b)
    }

    fn conv(&self, t: &Type, generics: &BTreeSet<String>, self_ty: Option<&str>, extra_adt: Option<&str>) -> R<Ty> {
        let tabs = &self.tables;
        let cf = self.cur_file.clone();
        conv_ty(
            t,
            &|n| {
                if Some(n) == extra_adt || extra_adt.map(|x| x.ends_with(&format!(".{}", n))).unwrap_or(false) {
                    return Some(Ty::Adt(extra_adt.unwrap().to_string()));
                }
                tabs.resolve_name(n, &cf, self_ty)
            },
            generics,
            self_ty,
        )
    }

    /// `MajorMinor<i32>` + `impl<T> MajorMinor<T>` -> {T: i32}
    fn instance_subst(&self, inst: Option<&str>, impl_self: Option<&Type>) -> R<BTreeMap<String, Ty>> {
        let mut m = BTreeMap::new();
        let (inst, impl_self) = match (inst, impl_self) {
            (Some(i), Some(t)) if i.contains('<') => (i, t),
            _ => return Ok(m),
        };
        let it: Type = syn::parse_str(inst).map_err(|e| format!("instance `{}`: {}", inst, e))?;
        let args_of = |t: &Type| -> Vec<Type> {
            if let Type::Path(p) = t {
                if let PathArguments::AngleBracketed(a) = &p.path.segments.last().unwrap().arguments {
                    return a.args.iter().filter_map(|g| if let GenericArgument::Type(t) = g { Some(t.clone()) } else { None }).collect();
                }
            }
            vec![]
        };
        let ia = args_of(&it);
        let pa = args_of(impl_self);
        if ia.len() != pa.len() {
            return Err(format!("instance `{}` does not fit the impl's self type", inst));
        }
        for (i, p) in ia.iter().zip(pa.iter()) {
            let pn = type_last_ident(p).unwrap_or_default();
            m.insert(pn, self.conv(i, &BTreeSet::new(), None, None)?);
        }
        Ok(m)
    }

    fn generics_of(g: &Generics) -> BTreeSet<String> {
        g.params.iter().filter_map(|p| if let GenericParam::Type(t) = p { Some(t.ident.to_string()) } else { None }).collect()
    }

    fn add_struct(&mut self, file: &str, name: &str, map: &[&str], eqb: Option<String>, module: &str) -> R<()> {
        self.load(file)?;
        let src = &self.sources[file];
        let base = name.split('<').next().unwrap().rsplit('.').next().unwrap();
        let st = all_items(&src.file.items)
            .into_iter()
            .find_map(|i| if let Item::Struct(s) = i { if s.ident == base { Some(s) } else { None } } else { None })
            .ok_or_else(|| format!("struct `{}` not found in {}", base, file))?;
        let gens = Self::generics_of(&st.generics);
        // monomorphic instance `Name<T1, ..>`: substitute the struct's type parameters
        let mut subst: BTreeMap<String, Ty> = BTreeMap::new();
        if name.contains('<') {
            let it: Type = syn::parse_str(name).map_err(|e| format!("instance `{}`: {}", name, e))?;
            let mut args = vec![];
            if let Type::Path(p) = &it {
                if let PathArguments::AngleBracketed(a) = &p.path.segments.last().unwrap().arguments {
                    for g in a.args.iter() {
                        if let GenericArgument::Type(t) = g {
                            args.push(self.conv(t, &BTreeSet::new(), None, None)?);
                        }
                    }
                }
            }
            let params: Vec<String> = st.generics.params.iter().filter_map(|p| if let GenericParam::Type(t) = p { Some(t.ident.to_string()) } else { None }).collect();
            if params.len() != args.len() {
                return Err(format!("instance `{}`: the struct has {} type parameters", name, params.len()));
            }
            for (p, a) in params.into_iter().zip(args) {
                subst.insert(p, a);
            }
        }
        let mut fields = vec![];
        for (i, f) in st.fields.iter().enumerate() {
            let fname = f.ident.as_ref().map(|x| x.to_string()).unwrap_or_else(|| i.to_string());
            let ty = if type_last_ident(&f.ty).as_deref() == Some("PhantomData") {
                // zero-sized: no data, left out of constructor, literals and updates
                Ty::Opaque("PhantomData".into())
            } else {
                // a `&'a mut T` field holds the state of the borrowed value (state passing)
                let fty: &Type = match &f.ty {
                    Type::Reference(r) if r.mutability.is_some() => &r.elem,
                    t => t,
                };
                match self.conv(fty, &gens, Some(name), Some(name)) {
                    Ok(t) => subst_ty(&t, &subst),
                    Err(e) => Ty::Opaque(e),
                }
            };
            fields.push((fname, ty));
        }
        let cname = sanitize(name);
        let generated = map.is_empty();
        let (coq_ty, ctor, projs): (String, String, Vec<String>) = if map.len() == 2 && map[1] == "newtype" && fields.len() == 1 {
            // a tuple struct over one field, represented by that field
            (map[0].to_string(), String::new(), vec![String::new()])
        } else if generated {
            (cname.clone(), format!("Build_{}", cname), fields.iter().map(|(f, _)| format!("{}_{}", cname, f)).collect())
        } else {
            if map.len() != fields.len() + 2 {
                return Err(format!("struct `{}` has {} fields but the mapping names {} projections (the struct changed?)", name, fields.len(), map.len().saturating_sub(2)));
            }
            (map[0].to_string(), map[1].to_string(), map[2..].iter().map(|s| s.to_string()).collect())
        };
        let line = st.span().start().line;
        let derives = derive_list(&st.attrs);
        if eqb.is_some() && !derives.contains("PartialEq") {
            return Err(format!("struct `{}`: `eqb=` given but the struct does not derive PartialEq (a hand-written `eq` is not translated)", name));
        }
        let clone_ok = derives.contains("Clone") || derives.contains("Copy");
        // a generated record leaves out the fields whose type is outside the subset (then it cannot be constructed)
        let has_opaque = generated && fields.iter().any(|(_, t)| matches!(t, Ty::Opaque(_)) && !is_phantom(t));
        if !generated {
            for ((f, t), p) in fields.iter().zip(projs.iter()) {
                if is_phantom(t) && p != "-" {
                    return Err(format!("struct `{}`: field `{}` is PhantomData, its projection must be `-`", name, f));
                }
            }
        }
        let ctor = if has_opaque { "-".to_string() } else { ctor };
        let projs: Vec<String> = fields.iter().zip(projs).map(|((_, t), p)| if generated && matches!(t, Ty::Opaque(_)) { "-".to_string() } else { p }).collect();
        let info = StructInfo {
            name: name.to_string(),
            coq_ty,
            ctor,
            fields: fields.into_iter().zip(projs).map(|((n, t), p)| FieldInfo { name: n, ty: t, proj: p }).collect(),
            eqb,
            generated,
            module: if clone_ok { format!("clone:{}", module) } else { module.to_string() },
            origin: format!("{}:{}", file, line),
        };
        if self.tables.adts.contains_key(name) || self.tables.externs.contains_key(name) {
            return Err(format!("type key `{}` is configured twice (use a module-qualified key such as `module.{}` for a second type of that name)", name, name));
        }
        self.tables.adts.insert(name.to_string(), Adt::Struct(info));
        Ok(())
    }

    fn add_enum(&mut self, file: &str, name: &str, map: &[&str], eqb: Option<String>, module: &str) -> R<()> {
        self.load(file)?;
        let src = &self.sources[file];
        let en = all_items(&src.file.items)
            .into_iter()
            .find_map(|i| if let Item::Enum(s) = i { if s.ident == name.rsplit('.').next().unwrap() { Some(s) } else { None } } else { None })
            .ok_or_else(|| format!("enum `{}` not found in {}", name, file))?;
        let gens = Self::generics_of(&en.generics);
        let generated = map.is_empty();
        let mut ctor_map: BTreeMap<String, String> = BTreeMap::new();
        if !generated {
            for m in &map[1..] {
                let (a, b) = m.split_once(':').ok_or_else(|| format!("enum mapping `{}` is not Variant:ctor", m))?;
                ctor_map.insert(a.to_string(), b.to_string());
            }
            if ctor_map.len() != en.variants.len() {
                return Err(format!("enum `{}` has {} variants but the mapping names {} (the enum changed?)", name, en.variants.len(), ctor_map.len()));
            }
        }
        let mut variants = vec![];
        for v in en.variants.iter() {
            let vn = v.ident.to_string();
            if v.discriminant.is_some() {
                return Err(format!("enum `{}`: explicit discriminants are not supported", name));
            }
            let mut fields = vec![];
            for f in v.fields.iter() {
                let ty = self.conv(&f.ty, &gens, Some(name), Some(name)).map_err(|e| format!("enum `{}` variant `{}`: {}", name, vn, e))?;
                fields.push((f.ident.as_ref().map(|x| x.to_string()), ty));
            }
            let ctor = if generated {
                format!("{}_{}", sanitize(name), vn)
            } else {
                ctor_map.get(&vn).cloned().ok_or_else(|| format!("enum `{}`: variant `{}` has no mapping (the enum changed?)", name, vn))?
            };
            variants.push(VariantInfo { name: vn, ctor, fields });
        }
        let derives = derive_list(&en.attrs);
        if eqb.is_some() && !derives.contains("PartialEq") {
            return Err(format!("enum `{}`: `eqb=` given but the enum does not derive PartialEq (a hand-written `eq` is not translated)", name));
        }
        // derive(PartialEq): structural equality, when every field has a decidable equality we know
        let field_eq_ok = |t: &Ty| -> bool {
            match t {
                Ty::Int(Some(_)) | Ty::Bool => true,
                Ty::Param(p) => self.tables.tyvars.get(p).map(|c| c == "Z").unwrap_or(false),
                Ty::Adt(k) => match self.tables.adts.get(k) {
                    Some(Adt::Struct(s)) => s.eqb.is_some(),
                    Some(Adt::Enum(e)) => e.eqb.is_some(),
                    None => false,
                },
                _ => false,
            }
        };
        let eqb = if eqb.is_none() && variants.iter().all(|v| v.fields.iter().all(|(_, t)| field_eq_ok(t))) && derives.contains("PartialEq") { Some(format!("{}_eqb", sanitize(name))) } else { eqb };
        let auto_eqb = eqb.as_deref() == Some(format!("{}_eqb", sanitize(name)).as_str());
        let clone_ok = derives.contains("Clone") || derives.contains("Copy");
        let line = en.span().start().line;
        let info = EnumInfo {
            name: name.to_string(),
            coq_ty: if generated { sanitize(name) } else { map[0].to_string() },
            variants,
            eqb,
            generated,
            module: format!("{}{}", if auto_eqb { "auto-eqb:" } else { "" }, if clone_ok { format!("clone:{}", module) } else { module.to_string() }),
            origin: format!("{}:{}", file, line),
        };
        if self.tables.adts.contains_key(name) || self.tables.externs.contains_key(name) {
            return Err(format!("type key `{}` is configured twice (use a module-qualified key such as `module.{}` for a second type of that name)", name, name));
        }
        self.tables.adts.insert(name.to_string(), Adt::Enum(info));
        Ok(())
    }

    fn add_fn(&mut self, file: &str, spec: &str, coq_as: Option<String>, inst: Option<String>, needs: Option<String>, module: usize) -> R<()> {
        self.load(file)?;
        let parts = split_spec(spec);
        let (self_ty, trait_spec, name) = match parts.len() {
            1 => (None, None, parts[0].clone()),
            2 => (Some(parts[0].clone()), None, parts[1].clone()),
            3 => (Some(parts[0].clone()), Some(parts[1].clone()), parts[2].clone()),
            _ => return Err(format!("function spec `{}`", spec)),
        };
        let src = &self.sources[file];
        let ff = find_fn(src, self_ty.as_deref(), trait_spec.as_deref(), &name).map_err(|e| format!("{} `{}`: {}", file, spec, e))?;
        let mut gens = Self::generics_of(&ff.sig.generics);
        if let Some(g) = ff.impl_generics {
            gens.extend(Self::generics_of(g));
        }
        // a blanket impl `impl<T: Bound> Trait for T` instantiated with `inst=T:Type`: the self type is that type
        let find_self_ty = self_ty.clone();
        let self_ty: Option<String> = match (&self_ty, &inst) {
            (Some(stn), Some(inst)) => {
                let mut out = self_ty.clone();
                for part in inst.split(',') {
                    if let Some((g, t)) = part.split_once(':') {
                        if g == stn {
                            let ty: Type = syn::parse_str(t).map_err(|e| format!("inst type `{}`: {}", t, e))?;
                            if let Ty::Adt(k) = self.conv(&ty, &BTreeSet::new(), None, None)? {
                                out = Some(k);
                            }
                        }
                    }
                }
                out
            }
            _ => self_ty.clone(),
        };
        let st = self_ty.as_deref();
        let mut isub = self.instance_subst(st, ff.impl_self)?;
        let mut inst_map: BTreeMap<String, Ty> = BTreeMap::new();
        if let Some(inst) = &inst {
            let mut fn_gens = Self::generics_of(&ff.sig.generics);
            if let Some(g) = ff.impl_generics {
                fn_gens.extend(Self::generics_of(g));
            }
            for part in inst.split(',') {
                let (g, t) = part.split_once(':').ok_or_else(|| format!("{} `{}`: `inst={}` is not Param:Type[,..]", file, spec, inst))?;
                if !fn_gens.contains(g) {
                    return Err(format!("{} `{}`: `{}` is not a type parameter of the function", file, spec, g));
                }
                let ty: Type = syn::parse_str(t).map_err(|e| format!("inst type `{}`: {}", t, e))?;
                // a configured type, or a type variable (`tyvar`): a renaming of the parameter
                let tvs: BTreeSet<String> = self.tables.tyvars.keys().filter(|k| !k.contains("::")).cloned().collect();
                let ty = self.conv(&ty, &tvs, None, None)?;
                inst_map.insert(g.to_string(), ty.clone());
                isub.insert(g.to_string(), ty);
            }
        }
        let mut const_generics = vec![];
        for p in ff.sig.generics.params.iter() {
            if let GenericParam::Const(c) = p {
                const_generics.push((c.ident.to_string(), self.conv(&c.ty, &gens, st, None)?));
            }
        }
        if let Some(g) = ff.impl_generics {
            // const generics of the impl that the body mentions
            let mut ids = BTreeSet::new();
            idents_of(quote::ToTokens::to_token_stream(ff.block), &mut ids);
            for p in g.params.iter() {
                if let GenericParam::Const(c) = p {
                    if ids.contains(&c.ident.to_string()) {
                        const_generics.push((c.ident.to_string(), self.conv(&c.ty, &gens, st, None)?));
                    }
                }
            }
        }
        let impl_args: Vec<String> = match ff.impl_self.map(strip_group) {
            Some(Type::Path(tp)) => match &tp.path.segments.last().unwrap().arguments {
                PathArguments::AngleBracketed(a) => a.args.iter().map(|g| tokens_nospace(g)).collect(),
                _ => vec![],
            },
            _ => vec![],
        };
        // associated constants of generic type parameters (`R::BITS_PER_PIXEL`, `C::Raw::BITS_PER_PIXEL`)
        let mut assoc_params: Vec<(String, Ty)> = vec![];
        {
            struct V<'g> {
                gens: &'g BTreeSet<String>,
                found: Vec<String>,
            }
            impl<'ast, 'g> syn::visit::Visit<'ast> for V<'g> {
                fn visit_expr_path(&mut self, p: &'ast ExprPath) {
                    if p.qself.is_none() && p.path.segments.len() >= 2 && self.gens.contains(&p.path.segments[0].ident.to_string()) {
                        let k = generic_item_key(&p.path);
                        if !self.found.contains(&k) {
                            self.found.push(k);
                        }
                    }
                }
            }
            let mut v = V { gens: &gens, found: vec![] };
            syn::visit::Visit::visit_block(&mut v, ff.block);
            // `param.method(..)` where the parameter's type is a generic type parameter (or a reference to one)
            {
                let mut ptys: BTreeMap<String, String> = BTreeMap::new();
                for a in ff.sig.inputs.iter() {
                    if let FnArg::Typed(pt) = a {
                        let mut t: &Type = &pt.ty;
                        while let Type::Reference(r) = t {
                            t = &r.elem;
                        }
                        if let (Pat::Ident(pi), Type::Path(tp)) = (&*pt.pat, t) {
                            if let Some(id) = tp.path.get_ident() {
                                if gens.contains(&id.to_string()) {
                                    match inst_map.get(&id.to_string()) {
                                        None => {
                                            ptys.insert(pi.ident.to_string(), id.to_string());
                                        }
                                        // renamed to another type variable
                                        Some(Ty::Param(q)) => {
                                            ptys.insert(pi.ident.to_string(), q.clone());
                                        }
                                        Some(_) => {}
                                    }
                                }
                            }
                        }
                    }
                }
                // fields of `self` whose type is a generic parameter: `self.iter.next()`
                let mut ftys: BTreeMap<String, String> = BTreeMap::new();
                if let Some(stn) = st {
                    if let Some(si) = self.tables.struct_info(stn) {
                        for f in si.fields.iter() {
                            if let Ty::Param(g) = &f.ty {
                                if gens.contains(g) {
                                    ftys.insert(f.name.clone(), g.clone());
                                }
                            }
                        }
                    }
                }
                struct M<'g> {
                    ptys: &'g BTreeMap<String, String>,
                    ftys: &'g BTreeMap<String, String>,
                    known: &'g BTreeMap<String, Ty>,
                    found: Vec<String>,
                }
                impl<'ast, 'g> syn::visit::Visit<'ast> for M<'g> {
                    fn visit_expr_method_call(&mut self, m: &'ast ExprMethodCall) {
                        if let Expr::Path(p) = &*m.receiver {
                            if let Some(id) = p.path.get_ident() {
                                if let Some(g) = self.ptys.get(&id.to_string()) {
                                    let k = format!("{}::{}", g, m.method);
                                    if !self.found.contains(&k) {
                                        self.found.push(k);
                                    }
                                }
                            }
                        }
                        if let Expr::Field(f) = &*m.receiver {
                            if let (Expr::Path(p), Member::Named(fname)) = (&*f.base, &f.member) {
                                if p.path.is_ident("self") && self.known.contains_key(&m.method.to_string()) {
                                    if let Some(g) = self.ftys.get(&fname.to_string()) {
                                        let k = format!("{}::{}", g, m.method);
                                        if !self.found.contains(&k) {
                                            self.found.push(k);
                                        }
                                    }
                                }
                            }
                        }
                        syn::visit::visit_expr_method_call(self, m);
                    }
                }
                let mut mv = M { ptys: &ptys, ftys: &ftys, known: &self.tables.assoc_tys, found: vec![] };
                syn::visit::Visit::visit_block(&mut mv, ff.block);
                // (a) a method whose `assoc` type says its receiver is `G` / `G::X` for a generic G of this function
                //     (receivers that are closure parameters or results, whose types are not visible syntactically);
                // (b) a call of a configured method of ANOTHER impl that abstracts items of its own generic parameters
                //     (`iter.nth(..)` on a RawDataIterator needs `R::load::<O>`): the caller abstracts them too, under the
                //     same key, unless it has a generic parameter of that name itself
                {
                    struct A<'g> {
                        gens: &'g BTreeSet<String>,
                        known: &'g BTreeMap<String, Ty>,
                        fns: &'g Vec<FnInfo>,
                        st: Option<&'g str>,
                        found: Vec<String>,
                        clash: Option<String>,
                    }
                    impl<'g> A<'g> {
                        fn name(&mut self, n: &str, with_a: bool) {
                            if let (true, Some(Ty::Fn(ps, _))) = (with_a, self.known.get(n)) {
                                if let Some(Ty::Param(g)) = ps.first() {
                                    if self.gens.contains(g.split("::").next().unwrap()) {
                                        let k = format!("{}::{}", g, n);
                                        if !self.found.contains(&k) {
                                            self.found.push(k);
                                        }
                                    }
                                }
                            }
                        }
                    }
                    impl<'ast, 'g> syn::visit::Visit<'ast> for A<'g> {
                        fn visit_expr_method_call(&mut self, m: &'ast ExprMethodCall) {
                            self.name(&m.method.to_string(), true);
                            syn::visit::visit_expr_method_call(self, m);
                        }
                        fn visit_expr_call(&mut self, c: &'ast ExprCall) {
                            if let Expr::Path(p) = &*c.func {
                                if p.path.segments.len() >= 2 {
                                    let n = p.path.segments.last().unwrap().ident.to_string();
                                    // only (b): `Type::function(..)`
                                    self.name(&n, false);
                                }
                            }
                            syn::visit::visit_expr_call(self, c);
                        }
                    }
                    let mut av = A { gens: &gens, known: &self.tables.assoc_tys, fns: &self.tables.fns, st, found: vec![], clash: None };
                    syn::visit::Visit::visit_block(&mut av, ff.block);
                    if let Some(c) = av.clash {
                        return Err(format!("{} `{}`: abstracted item {}", file, spec, c));
                    }
                    // `needs=<key>,..`: items abstracted by configured methods of OTHER impls that this function calls
                    // (`iter.nth(..)` on a RawDataIterator needs `R::load::<O>`): parameters of this function under the same key
                    if let Some(ns) = &needs {
                        for k in ns.split(',') {
                            let g0 = k.split("::").next().unwrap();
                            if gens.contains(g0) {
                                return Err(format!("{} `{}`: `needs={}` but `{}` is a generic parameter of this function itself", file, spec, k, g0));
                            }
                            let by_fn = self.tables.fns.iter().any(|f| f.assoc_params.iter().any(|(k2, _)| k2 == k));
                            let last = k.split("::<").next().unwrap().rsplit("::").next().unwrap();
                            let by_assoc = matches!(self.tables.assoc_tys.get(last), Some(Ty::Fn(ps, _)) if matches!(ps.first(), Some(Ty::Param(g)) if format!("{}::{}", g, last) == k));
                            if !by_fn && !by_assoc {
                                return Err(format!("{} `{}`: `needs={}`: no configured function abstracts such an item and no `assoc` line declares it", file, spec, k));
                            }
                            if !av.found.contains(&k.to_string()) {
                                av.found.push(k.to_string());
                            }
                        }
                    }
                    for k in av.found {
                        if !mv.found.contains(&k) {
                            mv.found.push(k);
                        }
                    }
                }
                for k in mv.found {
                    if !v.found.contains(&k) {
                        v.found.push(k);
                    }
                }
            }
            // `callee::<A, B>(..)` where the callee abstracts `R::CONST`: the caller needs `A::CONST` when A is generic here
            {
                struct C<'g> {
                    gens: &'g BTreeSet<String>,
                    fns: &'g Vec<FnInfo>,
                    st: Option<&'g str>,
                    found: Vec<String>,
                }
                impl<'ast, 'g> syn::visit::Visit<'ast> for C<'g> {
                    fn visit_expr_call(&mut self, c: &'ast ExprCall) {
                        if let Expr::Path(p) = &*c.func {
                            // `path::Trait::<A, ..>::f(..)` with a configured `impl<X..> Trait<X..> for Self`: the callee's `X::ITEM` is `A::ITEM` here
                            if p.path.segments.len() >= 2 && self.st.is_some() {
                                let tseg = &p.path.segments[p.path.segments.len() - 2];
                                let fname = p.path.segments.last().unwrap().ident.to_string();
                                let tname = tseg.ident.to_string();
                                let targs: Vec<String> = match &tseg.arguments {
                                    PathArguments::AngleBracketed(a) => a.args.iter().filter_map(|g| if let GenericArgument::Type(Type::Path(tp)) = g { tp.path.get_ident().map(|i| i.to_string()) } else { None }).collect(),
                                    _ => vec![],
                                };
                                for f in self.fns.iter().filter(|f| f.name == fname && f.self_ty.as_deref() == self.st && f.trait_name.as_deref().map_or(false, |t| t.starts_with(&format!("{}<", tname)))) {
                                    let tn = f.trait_name.clone().unwrap();
                                    let cargs: Vec<String> = tn[tname.len() + 1..tn.len() - 1].split(',').map(|x| x.trim().to_string()).collect();
                                    if cargs.len() != targs.len() {
                                        continue;
                                    }
                                    for (k, _) in f.assoc_params.iter() {
                                        let mut parts: Vec<&str> = k.split("::").collect();
                                        if let Some(gi) = cargs.iter().position(|g| g == parts[0]) {
                                            if self.gens.contains(&targs[gi]) {
                                                parts[0] = &targs[gi];
                                                let nk = parts.join("::");
                                                if !self.found.contains(&nk) {
                                                    self.found.push(nk);
                                                }
                                            }
                                        }
                                    }
                                }
                            }
                            let seg = p.path.segments.last().unwrap();
                            // (`G::f::<A>(..)` on a generic parameter G is an `assoc` item, not a configured function)
                            let on_generic = p.path.segments.len() >= 2 && self.gens.contains(&p.path.segments[0].ident.to_string());
                            if let (PathArguments::AngleBracketed(a), false) = (&seg.arguments, on_generic) {
                                let targs: Vec<String> = a.args.iter().filter_map(|g| if let GenericArgument::Type(Type::Path(tp)) = g { tp.path.get_ident().map(|i| i.to_string()) } else { None }).collect();
                                for f in self.fns.iter().filter(|f| f.name == seg.ident.to_string() && !f.assoc_params.is_empty() && f.generic_names.len() == targs.len()) {
                                    for (k, _) in f.assoc_params.iter() {
                                        let mut parts: Vec<&str> = k.split("::").collect();
                                        if let Some(gi) = f.generic_names.iter().position(|g| g == parts[0]) {
                                            if self.gens.contains(&targs[gi]) {
                                                parts[0] = &targs[gi];
                                                let nk = parts.join("::");
                                                if !self.found.contains(&nk) {
                                                    self.found.push(nk);
                                                }
                                            }
                                        }
                                    }
                                }
                            }
                        }
                        syn::visit::visit_expr_call(self, c);
                    }
                }
                // `self.m(..)` / `Self::m(..)` of the same impl header: the callee's abstracted items are the caller's
                {
                    struct S<'g> {
                        fns: &'g Vec<FnInfo>,
                        st: Option<&'g str>,
                        impl_args: &'g Vec<String>,
                        found: Vec<String>,
                    }
                    impl<'g> S<'g> {
                        fn add(&mut self, name: &str) {
                            for f in self.fns.iter().filter(|f| f.name == name && f.self_ty.as_deref() == self.st && self.st.is_some() && f.impl_args == *self.impl_args && f.generic_names.is_empty()) {
                                for (k, _) in f.assoc_params.iter() {
                                    if !self.found.contains(k) {
                                        self.found.push(k.clone());
                                    }
                                }
                            }
                        }
                    }
                    impl<'ast, 'g> syn::visit::Visit<'ast> for S<'g> {
                        fn visit_expr_method_call(&mut self, m: &'ast ExprMethodCall) {
                            if matches!(&*m.receiver, Expr::Path(p) if p.path.is_ident("self")) {
                                self.add(&m.method.to_string());
                            }
                            syn::visit::visit_expr_method_call(self, m);
                        }
                        fn visit_expr_call(&mut self, c: &'ast ExprCall) {
                            if let Expr::Path(p) = &*c.func {
                                if p.path.segments.len() == 2 && p.path.segments[0].ident == "Self" {
                                    self.add(&p.path.segments[1].ident.to_string());
                                }
                            }
                            syn::visit::visit_expr_call(self, c);
                        }
                    }
                    let mut sv = S { fns: &self.tables.fns, st, impl_args: &impl_args, found: vec![] };
                    syn::visit::Visit::visit_block(&mut sv, ff.block);
                    for k in sv.found {
                        if !v.found.contains(&k) {
                            v.found.push(k);
                        }
                    }
                }
                let mut c = C { gens: &gens, fns: &self.tables.fns, st, found: vec![] };
                syn::visit::Visit::visit_block(&mut c, ff.block);
                for k in c.found {
                    if !v.found.contains(&k) {
                        v.found.push(k);
                    }
                }
            }
            for k in v.found {
                let last = k.split("::<").next().unwrap().rsplit("::").next().unwrap().to_string();
                match self.tables.assoc_tys.get(&last) {
                    Some(t) => assoc_params.push((k, t.clone())),
                    None => return Err(format!("{} `{}`: `{}` is an associated item of a generic parameter; give its type with an `assoc {} <type>` line", file, spec, k, last)),
                }
            }
        }
        let mvars = {
            let mut ts = quote::ToTokens::to_token_stream(ff.sig);
            ts.extend(quote::ToTokens::to_token_stream(ff.block));
            if let Some(t) = ff.impl_self {
                ts.extend(quote::ToTokens::to_token_stream(t));
            }
            self.mvars_of(ts, st, file)
        };
        let mut self_kind = SelfKind::None;
        let mut params = vec![];
        let mut mut_params: Vec<bool> = vec![];
        for a in ff.sig.inputs.iter() {
            match a {
                FnArg::Receiver(r) => {
                    self_kind = if r.reference.is_some() {
                        if r.mutability.is_some() {
                            SelfKind::Mut
                        } else {
                            SelfKind::Ref
                        }
                    } else {
                        SelfKind::Value
                    };
                }
                FnArg::Typed(pt) => {
                    let n = match &*pt.pat {
                        Pat::Ident(i) if i.subpat.is_none() => i.ident.to_string(),
                        Pat::Wild(_) => "_".to_string(),
                        _ => return Err(format!("{} `{}`: parameter pattern is not an identifier", file, spec)),
                    };
                    let (pty, is_mut): (&Type, bool) = match &*pt.ty {
                        Type::Reference(r) if r.mutability.is_some() => (&*r.elem, true),
                        t => (t, false),
                    };
                    let ty = self.conv(pty, &gens, st, None).map_err(|e| format!("{} `{}`: parameter `{}`: {}", file, spec, n, e))?;
                    params.push((n, subst_ty(&ty, &isub)));
                    mut_params.push(is_mut);
                }
            }
        }
        let ret = match &ff.sig.output {
            ReturnType::Default => Ty::Unit,
            // `fn f(&mut self, ..) -> &mut Self { ..; self }`: the returned reference is `self` itself (checked at translation):
            // the result is the new self alone, the call has type ()
            ReturnType::Type(_, t) if self_kind == SelfKind::Mut && tokens_nospace(&**t) == "&mutSelf" => Ty::Unit,
            ReturnType::Type(_, t) => {
                // `Self::Output` of operator impls
                let so = tokens_nospace(&**t);
                let inner_opt = so.starts_with("Option<Self::") && so.ends_with('>');
                let assoc_name: Option<String> = if inner_opt { Some(so["Option<Self::".len()..so.len() - 1].to_string()) } else { so.strip_prefix("Self::").map(|x| x.to_string()) };
                if let Some(an) = assoc_name.filter(|a| a.chars().all(|c| c.is_alphanumeric() || c == '_')) {
                    let mut found = None;
                    for ii in ff.impl_items.unwrap_or(&[]) {
                        if let ImplItem::Type(it) = ii {
                            if it.ident == an.as_str() {
                                found = Some(self.conv(&it.ty, &gens, st, None)?);
                            }
                        }
                    }
                    let f = found.ok_or_else(|| format!("{} `{}`: associated type Self::{} not found in the impl", file, spec, an))?;
                    if inner_opt {
                        Ty::Option(Box::new(f))
                    } else {
                        f
                    }
                } else {
                    self.conv(t, &gens, st, None).map_err(|e| format!("{} `{}`: return type: {}", file, spec, e))?
                }
            }
        };
        let ret = subst_ty(&ret, &isub);
        let coq = coq_as.unwrap_or_else(|| {
            let mut s = String::from("src_");
            if let Some(t) = &self_ty {
                s.push_str(&sanitize(t));
                s.push('_');
            }
            s.push_str(&name);
            if let Some(ts) = &trait_spec {
                let (tn, targ) = split_trait(ts);
                if let Some(a) = targ {
                    s.push('_');
                    s.push_str(&a.replace(|c: char| !c.is_alphanumeric(), "_"));
                } else if tn == "From" || tn == "Into" {
                    s.push_str("_from");
                }
            }
            s
        });
        if self.tables.fns.iter().any(|f| f.coq == coq) {
            return Err(format!("{} `{}`: Coq name `{}` is already used (give `as=`)", file, spec, coq));
        }
        let info = FnInfo { key: spec.to_string(), name: name.clone(), coq, self_ty: self_ty.clone(), trait_name: trait_spec.clone(), self_kind, const_generics, assoc_params, params, mut_params, mvars, generic_names: ff.sig.generics.params.iter().filter_map(|p| if let GenericParam::Type(t) = p { Some(t.ident.to_string()) } else { None }).collect(), impl_args: impl_args.clone(), file: file.to_string(), ret, fuel: false, partial: false, usize_w: false, panic_sites: vec![] };
        self.tables.fns.push(info);
        let idx = self.tables.fns.len() - 1;
        self.jobs.push(FnJob { file: file.to_string(), self_ty, find_self_ty, trait_spec, name, info_idx: idx, module, inst: inst_map });
        self.modules[module].decls.push(Decl::Fn(self.jobs.len() - 1));
        Ok(())
    }

    fn add_const(&mut self, file: &str, spec: &str, coq_as: Option<String>, module: usize) -> R<()> {
        self.load(file)?;
        let parts = split_spec(spec);
        let (st, name) = match parts.len() {
            1 => (None, parts[0].clone()),
            2 => (Some(parts[0].clone()), parts[1].clone()),
            _ => return Err(format!("const spec `{}`", spec)),
        };
        let src = &self.sources[file];
        let mut found: Vec<(&Type, &Expr, usize, usize)> = vec![];
        for it in all_items(&src.file.items) {
            match (it, &st) {
                (Item::Const(c), None) if c.ident == name => found.push((&c.ty, &c.expr, c.span().start().line, c.span().end().line)),
                (Item::Static(c), None) if c.ident == name && matches!(c.mutability, StaticMutability::None) => found.push((&c.ty, &c.expr, c.span().start().line, c.span().end().line)),
                (Item::Impl(im), Some(t)) if type_last_ident(&im.self_ty).as_deref() == Some(t.rsplit('.').next().unwrap()) => {
                    for ii in im.items.iter() {
                        if let ImplItem::Const(c) = ii {
                            if c.ident == name {
                                found.push((&c.ty, &c.expr, c.span().start().line, c.span().end().line));
                            }
                        }
                    }
                }
                _ => {}
            }
        }
        if found.len() != 1 {
            return Err(format!("{} const `{}`: {} definitions found", file, spec, found.len()));
        }
        let (ty, ex, l1, l2) = found[0];
        let mvars = self.mvars_of(quote::ToTokens::to_token_stream(ex), None, file);
        let ty = self.conv(ty, &BTreeSet::new(), st.as_deref(), None)?;
        let mut tr = Tr { t: &self.tables, self_ty: st.clone(), ret_ty: ty.clone(), mut_self: false, counter: BTreeMap::new(), mut_methods: BTreeSet::new(), generic_tys: BTreeSet::new(), subst: BTreeMap::new(), fuel: false, partial: false, needs_partial: false, usize_w: std::cell::Cell::new(false), assoc_override: std::cell::RefCell::new(None), panic_sites: BTreeSet::new(), slice_names: std::cell::RefCell::new(BTreeSet::new()), needs_fuel: false, unwrap_retry: false, fuel_var: String::new(), fuel_names: BTreeSet::new(), mutarg_names: BTreeSet::new(), mut_params: vec![], ret_coq: String::new(), loops: vec![], gen: None, fn_assigned: BTreeSet::new(), cur_file: file.to_string(), fn_coq: String::new(), loop_counter: 0, aux_defs: vec![], turbofish_types: None, inst_traits: BTreeMap::new(), self_coq: String::new(), mut_param_coq: vec![] };
        let mut cenv = Env::default();
        let cbinders = self.mvar_binders(&mvars, &mut tr, &mut cenv)?;
        let v = tr.pure(ex, &cenv, Some(&ty)).map_err(|e| format!("{} const `{}`: {}", file, spec, e))?;
        join(&v.ty, &ty).map_err(|e| format!("{} const `{}`: {}", file, spec, e))?;
        let coq = coq_as.unwrap_or_else(|| format!("src_{}", sanitize(&spec.replace("::", "_"))));
        let text: String = src.text.lines().skip(l1 - 1).take(l2 - l1 + 1).collect::<Vec<_>>().join("\n");
        let head = format!("(* {}:{}-{}  const {}  hash:{:016x} *)", file, l1, l2, spec, fnv1a(&text));
        let cty = self.tables.coq_ty(&ty)?;
        let body = format!("{}\nDefinition {}{} : {} := {}.\n", head, coq, cbinders, cty, v.s);
        // the same bare name may be a (file-private) constant of several files; the Coq names must differ
        if self.tables.consts.iter().any(|c| (c.key == spec && (c.file == file || st.is_some())) || c.coq == coq) {
            return Err(format!("{} const `{}`: key or Coq name `{}` already used", file, spec, coq));
        }
        self.tables.consts.push(ConstInfo { key: spec.to_string(), coq, ty, mvars, file: file.to_string() });
        let idx = self.tables.consts.len() - 1;
        self.modules[module].decls.push(Decl::Const(idx, file.to_string(), body));
        Ok(())
    }

    /// returns the generated text and the mode it was translated in (0 total, 1 partial: `option`, None = panic; 2 fuelled)
    fn translate_fn(&self, job: &FnJob) -> R<(String, u8, Vec<String>, bool)> {
        let info = &self.tables.fns[job.info_idx];
        let mut mode: u8 = if info.fuel { 2 } else if info.partial { 1 } else { 0 };
        loop {
            match self.translate_fn_with(job, mode) {
                Ok((s, sites, uw)) => return Ok((s, mode, sites, uw)),
                Err((e, need)) => {
                    if need > mode {
                        mode = need;
                    } else {
                        return Err(e);
                    }
                }
            }
        }
    }

    fn translate_fn_with(&self, job: &FnJob, mode: u8) -> std::result::Result<(String, Vec<String>, bool), (String, u8)> {
        let fuel = mode == 2;
        let nf = |e: String| (e, 0u8);
        let src = &self.sources[&job.file];
        let ff = find_fn(src, job.find_self_ty.as_deref(), job.trait_spec.as_deref(), &job.name).map_err(nf)?;
        let info = &self.tables.fns[job.info_idx];
        let mut gens = Self::generics_of(&ff.sig.generics);
        if let Some(g) = ff.impl_generics {
            gens.extend(Self::generics_of(g));
        }
        let mut mut_methods: BTreeSet<String> = self.tables.fns.iter().filter(|f| f.self_kind == SelfKind::Mut).map(|f| f.name.clone()).collect();
        mut_methods.extend(self.tables.assoc_mut.iter().cloned());
        let mut fuel_names: BTreeSet<String> = self.tables.fns.iter().filter(|f| f.opt()).map(|f| f.name.clone()).collect();
        for f in self.tables.fns.iter().filter(|f| f.opt()) {
            if let Some(st) = &f.self_ty {
                fuel_names.insert(format!("{}::{}", st.rsplit('.').next().unwrap().split('<').next().unwrap(), f.name));
            }
        }
        // functions with `&mut` parameters: `Type::name` for the path-call form, the bare name for method calls and free functions
        let mut mutarg_names: BTreeSet<String> = BTreeSet::new();
        for f in self.tables.fns.iter().filter(|f| f.has_mut_params()) {
            match &f.self_ty {
                Some(st) => {
                    mutarg_names.insert(format!("{}::{}", st.rsplit('.').next().unwrap().split('<').next().unwrap(), f.name));
                    if f.self_kind != SelfKind::None {
                        mutarg_names.insert(f.name.clone());
                    }
                }
                None => {
                    mutarg_names.insert(f.name.clone());
                }
            }
        }
        let rtys = info.result_tys();
        let mut rcs = vec![];
        for t in rtys.iter() {
            rcs.push(self.tables.coq_ty(t).map_err(nf)?);
        }
        let ret_coq = match rcs.len() {
            0 => "unit".to_string(),
            1 => rcs[0].clone(),
            _ => format!("({})", rcs.join(" * ")),
        };
        let mut tr = Tr {
            t: &self.tables,
            self_ty: job.self_ty.clone(),
            ret_ty: info.ret.clone(),
            mut_self: info.self_kind == SelfKind::Mut,
            counter: BTreeMap::new(),
            mut_methods,
            generic_tys: gens,
            subst: {
                let mut m = self.instance_subst(job.self_ty.as_deref(), ff.impl_self).map_err(nf)?;
                m.extend(job.inst.iter().map(|(k, v)| (k.clone(), v.clone())));
                m
            },
            fuel,
            partial: mode >= 1,
            needs_partial: false,
            usize_w: std::cell::Cell::new(false),
            assoc_override: std::cell::RefCell::new(None),
            panic_sites: BTreeSet::new(),
            slice_names: std::cell::RefCell::new(BTreeSet::new()),
            needs_fuel: false,
            unwrap_retry: false,
            fuel_var: "fuel'".into(),
            fuel_names,
            mutarg_names,
            mut_params: info.params.iter().zip(info.mut_params.iter()).filter(|(_, m)| **m).map(|((n, _), _)| n.clone()).collect(),
            ret_coq: ret_coq.clone(),
            loops: vec![],
            gen: None,
            fn_assigned: BTreeSet::new(),
            cur_file: job.file.clone(),
            fn_coq: info.coq.clone(),
            loop_counter: 0,
            aux_defs: vec![],
            turbofish_types: None,
            inst_traits: {
                let mut m: BTreeMap<String, BTreeSet<String>> = BTreeMap::new();
                for (g, t) in job.inst.iter() {
                    let key = match t {
                        Ty::Adt(k) => k.clone(),
                        _ => continue,
                    };
                    let e = m.entry(key).or_default();
                    let mut add = |bounds: &syn::punctuated::Punctuated<TypeParamBound, Token![+]>| {
                        for b in bounds.iter() {
                            if let TypeParamBound::Trait(tb) = b {
                                if let Some(s) = tb.path.segments.last() {
                                    e.insert(s.ident.to_string());
                                }
                            }
                        }
                    };
                    for p in ff.sig.generics.params.iter().chain(ff.impl_generics.iter().flat_map(|g| g.params.iter())) {
                        if let GenericParam::Type(tp) = p {
                            if tp.ident == g {
                                add(&tp.bounds);
                            }
                        }
                    }
                    for w in ff.impl_generics.iter().filter_map(|g| g.where_clause.as_ref()) {
                        for pr in w.predicates.iter() {
                            if let WherePredicate::Type(pt) = pr {
                                if matches!(&pt.bounded_ty, Type::Path(tp) if tp.path.is_ident(g)) {
                                    add(&pt.bounds);
                                }
                            }
                        }
                    }
                    if let Some(w) = &ff.sig.generics.where_clause {
                        for pr in w.predicates.iter() {
                            if let WherePredicate::Type(pt) = pr {
                                if matches!(&pt.bounded_ty, Type::Path(tp) if tp.path.is_ident(g)) {
                                    add(&pt.bounds);
                                }
                            }
                        }
                    }
                }
                m
            },
            self_coq: String::new(),
            mut_param_coq: vec![],
        };
        {
            // slice-typed parameters and struct fields: `name[i]` on them can panic
            let mut sn = tr.slice_names.borrow_mut();
            for (n, t) in info.params.iter() {
                if matches!(t, Ty::Slice(_)) {
                    sn.insert(n.clone());
                }
            }
            for a in self.tables.adts.values() {
                if let Adt::Struct(si) = a {
                    for f in si.fields.iter() {
                        if matches!(f.ty, Ty::Slice(_)) {
                            sn.insert(f.name.clone());
                        }
                    }
                }
            }
        }
        tr.fn_assigned = tr.effects_stmts(&ff.block.stmts).assigned;
        let mut env = Env::default();
        let mut binders = String::new();
        if fuel {
            tr.counter.insert("fuel".into(), 1);
            binders.push_str(" (fuel' : nat)");
        }
        binders.push_str(&self.mvar_binders(&info.mvars, &mut tr, &mut env).map_err(nf)?);
        for (n, t) in info.const_generics.iter() {
            let c = tr.fresh(n);
            write!(binders, " ({} : {})", c, self.tables.coq_ty(t).map_err(nf)?).unwrap();
            env.push(n, var(c, t.clone()));
        }
        for (n, t) in info.assoc_params.iter() {
            let c = tr.fresh(&sanitize(&n.replace("::", "_")));
            write!(binders, " ({} : {})", c, self.tables.coq_ty(t).map_err(nf)?).unwrap();
            env.push(n, var(c, t.clone()));
        }
        if info.self_kind != SelfKind::None {
            let stn = job.self_ty.clone().unwrap();
            let t = self.tables.resolve_name(&stn, &job.file, Some(&stn)).unwrap_or(Ty::Adt(stn));
            let c = tr.fresh("self");
            write!(binders, " ({} : {})", c, self.tables.coq_ty(&t).map_err(nf)?).unwrap();
            // `&mut self` and `mut self` may be written; `&self` / `self` may not
            let self_mut = ff.sig.inputs.iter().any(|a| matches!(a, FnArg::Receiver(r) if r.mutability.is_some()));
            tr.self_coq = c.clone();
            env.push("self", var_mut(c, t, self_mut));
        }
        let param_mut: Vec<bool> = ff
            .sig
            .inputs
            .iter()
            .filter_map(|a| match a {
                FnArg::Typed(pt) => Some(matches!(&*pt.pat, Pat::Ident(i) if i.mutability.is_some())),
                _ => None,
            })
            .collect();
        for (n, t) in info.params.iter() {
            if n == "_" {
                let c = tr.fresh("unused");
                write!(binders, " ({} : {})", c, self.tables.coq_ty(t).map_err(nf)?).unwrap();
                continue;
            }
            let c = tr.fresh(n);
            write!(binders, " ({} : {})", c, self.tables.coq_ty(t).map_err(nf)?).unwrap();
            let pi = info.params.iter().position(|(m, _)| m == n).unwrap();
            let is_ref_mut = info.mut_params[pi];
            if is_ref_mut {
                tr.mut_param_coq.push(c.clone());
            }
            env.push(n, var_mut(c, t.clone(), is_ref_mut || param_mut.get(pi).copied().unwrap_or(false)));
        }
        let ret = info.ret.clone();
        let env_top = env.clone();
        let returns_self_ref = matches!(&ff.sig.output, ReturnType::Type(_, t) if info.self_kind == SelfKind::Mut && tokens_nospace(&**t) == "&mutSelf");
        let stmts: &[Stmt] = if returns_self_ref {
            // the body must end in the expression `self` (and must not `return` anything else)
            match ff.block.stmts.last() {
                Some(Stmt::Expr(Expr::Path(p), None)) if p.path.is_ident("self") => {}
                _ => return Err((format!("{} `{}`: a `-> &mut Self` method whose body does not end in `self`", job.file, info.key), 0u8)),
            }
            if tr.effects_stmts(&ff.block.stmts).ret {
                return Err((format!("{} `{}`: a `-> &mut Self` method with early returns / loops", job.file, info.key), 0u8));
            }
            &ff.block.stmts[..ff.block.stmts.len() - 1]
        } else {
            &ff.block.stmts
        };
        let body = match tr.stmts_k(stmts, &env, Some(&ret), &|tr, v| tr.finish(v, &env_top)) {
            Ok(b) => b,
            Err(e) => return Err((e, if tr.needs_fuel { 2 } else if tr.needs_partial { 1 } else { 0 })),
        };
        let l1 = ff.sig.span().start().line;
        let l2 = ff.block.span().end().line;
        let text: String = src.text.lines().skip(l1 - 1).take(l2 - l1 + 1).collect::<Vec<_>>().join("\n");
        let mut out = String::new();
        writeln!(out, "(* {}:{}-{}  {}  hash:{:016x} *)", job.file, l1, l2, info.key, fnv1a(&text)).unwrap();
        let sites: Vec<String> = tr.panic_sites.iter().cloned().collect();
        if fuel {
            if sites.is_empty() {
                writeln!(out, "(* contains a loop (or calls a function that does): explicit fuel, None = fuel exhausted *)").unwrap();
            } else {
                writeln!(out, "(* contains a loop (or calls a function that does): explicit fuel, None = fuel exhausted OR a panic ({}) *)", sites.join(", ")).unwrap();
            }
        } else if mode == 1 {
            writeln!(out, "(* can panic ({}): None = panic *)", sites.join(", ")).unwrap();
        }
        let uw = tr.usize_w.get();
        if uw {
            writeln!(out, "(* depends on the width of usize (checked_* / saturating_* on usize): implicit {{U__ : Casts.UsizeW}} *)").unwrap();
        }
        for a in tr.aux_defs.iter() {
            let a = if uw {
                // `Fixpoint name (..` -> `Fixpoint name {U__ : Casts.UsizeW} (..`
                let mut it = a.splitn(3, ' ');
                match (it.next(), it.next(), it.next()) {
                    (Some(kw), Some(nm), Some(rest)) if kw == "Fixpoint" || kw == "Definition" => format!("{} {} {{U__ : Casts.UsizeW}} {}", kw, nm, rest),
                    _ => a.clone(),
                }
            } else {
                a.clone()
            };
            out.push_str(&indent0(&a));
            out.push('\n');
        }
        let full_ret = if mode >= 1 { format!("option {}", ret_coq) } else { ret_coq };
        let binders = if uw { format!(" {{U__ : Casts.UsizeW}}{}", binders) } else { binders };
        writeln!(out, "Definition {}{} : {} :=", info.coq, binders, full_ret).unwrap();
        out.push_str(&indent(&body));
        out.push_str(".\n");
        writeln!(out, "#[global] Hint Unfold {} : src.", info.coq).unwrap();
        Ok((out, sites, tr.usize_w.get()))
    }

    fn emit_adt(&self, name: &str) -> R<String> {
        let mut out = String::new();
        match &self.tables.adts[name] {
            Adt::Struct(s) => {
                if !s.generated {
                    writeln!(out, "(* struct {} ({}) = model record {} (constructor {}, projections {}) *)", s.name, s.origin, s.coq_ty, s.ctor, s.fields.iter().map(|f| format!("{}:{}", f.name, f.proj)).collect::<Vec<_>>().join(" ")).unwrap();
                } else {
                    writeln!(out, "(* struct {} ({}) *)", s.name, s.origin).unwrap();
                    let fs: Vec<String> = s.fields.iter().filter(|f| f.proj != "-").map(|f| Ok(format!("{} : {}", f.proj, self.tables.coq_ty(&f.ty)?))).collect::<R<Vec<_>>>()?;
                    let ctor = if s.ctor == "-" { format!("Build_{}", s.coq_ty) } else { s.ctor.clone() };
                    if s.ctor == "-" {
                        writeln!(out, "(* fields outside the subset are left out: {} *)", s.fields.iter().filter(|f| f.proj == "-").map(|f| f.name.clone()).collect::<Vec<_>>().join(", ")).unwrap();
                    }
                    writeln!(out, "Record {} : Type := {} {{ {} }}.", s.coq_ty, ctor, fs.join("; ")).unwrap();
                }
            }
            Adt::Enum(e) => {
                if !e.generated {
                    writeln!(out, "(* enum {} ({}) = model inductive {} ({}) *)", e.name, e.origin, e.coq_ty, e.variants.iter().map(|v| format!("{}:{}", v.name, v.ctor)).collect::<Vec<_>>().join(" ")).unwrap();
                } else {
                    writeln!(out, "(* enum {} ({}) *)", e.name, e.origin).unwrap();
                    writeln!(out, "Inductive {} : Type :=", e.coq_ty).unwrap();
                    for v in e.variants.iter() {
                        let mut fs = String::new();
                        for (i, (n, t)) in v.fields.iter().enumerate() {
                            write!(fs, " ({} : {})", n.clone().unwrap_or_else(|| format!("a{}", i)), self.tables.coq_ty(t)?).unwrap();
                        }
                        writeln!(out, "  | {}{}", v.ctor, fs).unwrap();
                    }
                    out.push_str(".\n");
                }
                if e.module.contains("auto-eqb:") {
                    // structural equality of a field-less enum (derive(PartialEq))
                    let n = e.eqb.clone().unwrap();
                    writeln!(out, "Definition {} (a b : {}) : bool :=\n  match a, b with", n, e.coq_ty).unwrap();
                    for v in e.variants.iter() {
                        if v.fields.is_empty() {
                            writeln!(out, "  | {}, {} => true", v.ctor, v.ctor).unwrap();
                        } else {
                            let xs: Vec<String> = (0..v.fields.len()).map(|i| format!("x{}_", i)).collect();
                            let ys: Vec<String> = (0..v.fields.len()).map(|i| format!("y{}_", i)).collect();
                            let mut conj = vec![];
                            for (i, (_, t)) in v.fields.iter().enumerate() {
                                conj.push(match t {
                                    Ty::Bool => format!("Bool.eqb {} {}", xs[i], ys[i]),
                                    Ty::Adt(k) => {
                                        let f = match self.tables.adts.get(k) {
                                            Some(Adt::Struct(s)) => s.eqb.clone(),
                                            Some(Adt::Enum(e2)) => e2.eqb.clone(),
                                            None => None,
                                        };
                                        format!("{} {} {}", f.ok_or_else(|| format!("no eqb for {}", k))?, xs[i], ys[i])
                                    }
                                    _ => format!("({} =? {})", xs[i], ys[i]),
                                });
                            }
                            writeln!(out, "  | {} {}, {} {} => {}", v.ctor, xs.join(" "), v.ctor, ys.join(" "), conj.join(" && ")).unwrap();
                        }
                    }
                    if e.variants.len() > 1 {
                        writeln!(out, "  | _, _ => false").unwrap();
                    }
                    writeln!(out, "  end.").unwrap();
                }
            }
        }
        Ok(out)
    }
}

fn indent0(body: &str) -> String {
    let mut lines = body.lines();
    let first = lines.next().unwrap_or("").to_string();
    let rest: Vec<&str> = lines.collect();
    format!("{}\n{}", first, indent(&rest.join("\n")))
}

/// indentation by nesting depth of let/match/if lines (purely cosmetic)
fn indent(body: &str) -> String {
    let mut out = String::new();
    let mut depth: i32 = 1;
    for l in body.lines() {
        let t = l.trim();
        if t == "end" || t.starts_with("end)") || t.starts_with("| ") || t == "else" {
            let d = if t.starts_with("end") { depth - 1 } else { depth - 1 };
            for _ in 0..d.max(1) {
                out.push_str("  ");
            }
            if t.starts_with("end") {
                depth -= 1;
            }
        } else {
            for _ in 0..depth.max(1) {
                out.push_str("  ");
            }
        }
        out.push_str(t);
        out.push('\n');
        if t.starts_with("match ") || t.starts_with("(match ") || t.contains(":= match ") || t.contains(":= (match ") {
            if !t.ends_with("end") && !t.ends_with("end)") && !t.contains(" end") {
                depth += 1;
            }
        }
    }
    while out.ends_with('\n') {
        out.pop();
    }
    out
}

fn write_if_changed(path: &Path, content: &str) -> bool {
    if let Ok(old) = std::fs::read_to_string(path) {
        if old == content {
            return false;
        }
    }
    std::fs::write(path, content).expect("cannot write output");
    true
}

fn main() {
    let args: Vec<String> = std::env::args().collect();
    if args.len() != 4 {
        eprintln!("usage: r2c <repo root> <functions.txt> <output dir>");
        std::process::exit(64);
    }
    let cfg = std::fs::read_to_string(&args[2]).expect("cannot read configuration");
    let outdir = Path::new(&args[3]);
    let mut d = Driver { macro_bindings: vec![], cur_file: String::new(), repo: args[1].clone(), sources: BTreeMap::new(), tables: Tables::default(), modules: vec![], jobs: vec![] };
    // core::cmp::Ordering = Coq's comparison
    d.tables.adts.insert(
        "Ordering".into(),
        Adt::Enum(EnumInfo {
            name: "Ordering".into(),
            coq_ty: "comparison".into(),
            variants: vec![
                VariantInfo { name: "Less".into(), ctor: "Lt".into(), fields: vec![] },
                VariantInfo { name: "Equal".into(), ctor: "Eq".into(), fields: vec![] },
                VariantInfo { name: "Greater".into(), ctor: "Gt".into(), fields: vec![] },
            ],
            eqb: None,
            generated: false,
            module: String::new(),
            origin: "core::cmp::Ordering".into(),
        }),
    );
    let mut fatal: Vec<String> = vec![];
    for (ln, raw) in cfg.lines().enumerate() {
        let line = raw.split('#').next().unwrap().trim();
        if line.is_empty() {
            continue;
        }
        let w: Vec<&str> = line.split_whitespace().collect();
        let opts: BTreeMap<String, String> = w.iter().filter_map(|x| x.split_once('=').filter(|(a, _)| !a.is_empty() && *a != "").map(|(a, b)| (a.to_string(), b.to_string()))).filter(|(a, _)| a == "as" || a == "eqb" || a == "inst" || a == "needs").collect();
        let w: Vec<&str> = w.into_iter().filter(|x| !(x.starts_with("as=") || x.starts_with("eqb=") || x.starts_with("inst=") || x.starts_with("needs="))).collect();
        let cur = d.modules.len().wrapping_sub(1);
        let res: R<()> = match w[0] {
            "module" if w.len() == 2 => {
                d.modules.push(Module { name: w[1].to_string(), imports: vec![], decls: vec![], errors: vec![] });
                Ok(())
            }
            _ if d.modules.is_empty() => Err("directive before the first `module` line".into()),
            "import" if w.len() == 2 => {
                d.modules[cur].imports.push(w[1].to_string());
                Ok(())
            }
            "tymap" if w.len() == 3 => {
                d.tables.tymap.insert(w[1].to_string(), w[2].to_string());
                Ok(())
            }
            "tyvar" if w.len() == 3 => {
                d.tables.tyvars.insert(w[1].to_string(), w[2].replace('~', " "));
                Ok(())
            }
            "struct" | "enum" if w.len() >= 3 => {
                let map: Vec<&str> = if w.len() > 3 {
                    if w[3] != "=" {
                        vec!["?"]
                    } else {
                        w[4..].to_vec()
                    }
                } else {
                    vec![]
                };
                let mname = d.modules[cur].name.clone();
                let r = if w[0] == "struct" { d.add_struct(w[1], w[2], &map, opts.get("eqb").cloned(), &mname) } else { d.add_enum(w[1], w[2], &map, opts.get("eqb").cloned(), &mname) };
                if r.is_ok() {
                    d.modules[cur].decls.push(Decl::Adt(w[2].to_string()));
                }
                r
            }
            "const" if w.len() == 3 => d.add_const(w[1], w[2], opts.get("as").cloned(), cur),
            // fuel <fn key> <coq nat term>
            "fuel" if w.len() == 3 => {
                d.tables.fuel_consts.insert(w[1].to_string(), w[2].to_string());
                Ok(())
            }
            "assoc" if w.len() == 3 => {
                // `fnmut(A, ..) -> R`: a `&mut self` method of a generic parameter: A -> .. -> (A * R)
                let is_mut = w[2].starts_with("fnmut(");
                let src = if is_mut { w[2].replacen("fnmut(", "fn(", 1) } else { w[2].to_string() };
                let t: R<Type> = syn::parse_str(&src).map_err(|e| e.to_string());
                let gens: BTreeSet<String> = d.tables.tyvars.keys().map(|k| k.split("::").next().unwrap().to_string()).collect();
                t.and_then(|t| d.conv(&t, &gens, None, None)).and_then(|t| {
                    let t = match (is_mut, t) {
                        (true, Ty::Fn(a, r)) if !a.is_empty() => {
                            let st = a[0].clone();
                            Ty::Fn(a, Box::new(Ty::Tuple(vec![st, *r])))
                        }
                        (true, _) => return Err("`assoc .. fnmut(..)` needs the receiver type as first argument".to_string()),
                        (false, t) => t,
                    };
                    if is_mut {
                        d.tables.assoc_mut.insert(w[1].to_string());
                    } else {
                        d.tables.assoc_mut.remove(w[1]);
                    }
                    d.tables.assoc_tys.insert(w[1].to_string(), t);
                    Ok(())
                })
            }
            // extern <RustType> = <coq type> <method>:<rust return type>:<coq function, `~` for blanks> ...
            "extern" if w.len() >= 4 && w[2] == "=" => {
                let mut methods = vec![];
                let mut margs: BTreeMap<String, Vec<Ty>> = BTreeMap::new();
                let mut err = None;
                for m in &w[4..] {
                    let ps: Vec<&str> = m.splitn(3, ':').collect();
                    if ps.len() != 3 {
                        err = Some(format!("extern method `{}` is not name[(argtypes)]:type:coqfn", m));
                        break;
                    }
                    // `name(t1,t2)`: a method with arguments
                    let mname = match ps[0].split_once('(') {
                        Some((n, rest)) => {
                            let mut ats = vec![];
                            for a in rest.trim_end_matches(')').split(',').filter(|a| !a.is_empty()) {
                                let t: R<Type> = syn::parse_str(a).map_err(|e| e.to_string());
                                match t.and_then(|t| d.conv(&t, &BTreeSet::new(), None, None)) {
                                    Ok(t) => ats.push(t),
                                    Err(e) => err = Some(e),
                                }
                            }
                            margs.insert(n.to_string(), ats);
                            n
                        }
                        None => ps[0],
                    };
                    if err.is_some() {
                        break;
                    }
                    let t: R<Type> = syn::parse_str(ps[1]).map_err(|e| e.to_string());
                    match t.and_then(|t| d.conv(&t, &BTreeSet::new(), None, None)) {
                        Ok(t) => methods.push((mname.to_string(), t, ps[2].replace('~', " "))),
                        Err(e) => {
                            err = Some(e);
                            break;
                        }
                    }
                }
                match err {
                    Some(e) => Err(e),
                    None => {
                        d.tables.externs.insert(w[1].to_string(), ExternInfo { name: w[1].to_string(), coq_ty: w[3].replace('~', " "), methods, margs, row: None, consts: vec![], statics: vec![] });
                        Ok(())
                    }
                }
            }
            "fn" if w.len() == 3 => d.add_fn(w[1], w[2], opts.get("as").cloned(), opts.get("inst").cloned(), opts.get("needs").cloned(), cur),
            // macro <file> <macro name> <arm> as <virtual file> [$name=tokens ...]
            "macro" if w.len() >= 6 && w[4] == "as" => match w[3].parse::<usize>() {
                Ok(arm) => d.add_macro(w[1], w[2], arm, w[5], &w[6..]),
                Err(_) => Err("macro arm index".to_string()),
            },
            // mvar <M_name> <rust type>
            "mvar" if w.len() == 3 => {
                let t: R<Type> = syn::parse_str(w[2]).map_err(|e| e.to_string());
                t.and_then(|t| d.conv(&t, &BTreeSet::new(), None, None)).map(|t| {
                    d.tables.mvars.push(MVar { name: w[1].to_string(), ty: t, coq_ty: None });
                })
            }
            // mtype <M_name> = <coq type of values> <coq type of the row> [const:NAME:type:coqfn | method:name:type:coqfn | fn:name:argtypes:rettype:coqfn]...
            "mtype" if w.len() >= 5 && w[2] == "=" => {
                let mut x = ExternInfo { name: w[1].to_string(), coq_ty: w[3].replace('~', " "), methods: vec![], margs: BTreeMap::new(), row: Some(w[1].to_string()), consts: vec![], statics: vec![] };
                let mut err = None;
                let ty_of = |d: &Driver, s: &str| -> R<Ty> {
                    if s == "Self" {
                        return Ok(Ty::Extern("Self".into()));
                    }
                    let t: Type = syn::parse_str(s).map_err(|e| e.to_string())?;
                    d.conv(&t, &BTreeSet::new(), None, None)
                };
                for m in &w[5..] {
                    let ps: Vec<&str> = m.split(':').collect();
                    let r: R<()> = (|| {
                        match (ps[0], ps.len()) {
                            ("const", 4) => x.consts.push((ps[1].to_string(), ty_of(&d, ps[2])?, ps[3].replace('~', " "))),
                            ("method", 4) => x.methods.push((ps[1].to_string(), ty_of(&d, ps[2])?, ps[3].replace('~', " "))),
                            ("fn", 5) => {
                                let mut at = vec![];
                                for a in ps[2].split(',').filter(|a| !a.is_empty()) {
                                    at.push(ty_of(&d, a)?);
                                }
                                x.statics.push((ps[1].to_string(), at, ty_of(&d, ps[3])?, ps[4].replace('~', " ")))
                            }
                            _ => return Err(format!("mtype member `{}`", m)),
                        }
                        Ok(())
                    })();
                    if let Err(e) = r {
                        err = Some(e);
                        break;
                    }
                }
                match err {
                    Some(e) => Err(e),
                    None => {
                        if w[4] == "-" {
                            x.row = None;
                        } else {
                            d.tables.mvars.push(MVar { name: w[1].to_string(), ty: Ty::Infer, coq_ty: Some(w[4].replace('~', " ")) });
                        }
                        d.tables.externs.insert(w[1].to_string(), x);
                        Ok(())
                    }
                }
            }
            _ => Err(format!("cannot parse configuration line: {}", line)),
        };
        if let Err(e) = res {
            let msg = format!("functions.txt:{}: {}", ln + 1, e);
            if d.modules.is_empty() {
                fatal.push(msg);
            } else {
                let c = d.modules.len() - 1;
                d.modules[c].errors.push(msg);
            }
        }
    }
    d.check_macro_bindings();
    // translate
    let mut failed = false;
    let mut outputs: Vec<(String, String)> = vec![];
    for mi in 0..d.modules.len() {
        let mut body = String::new();
        let mut errors = d.modules[mi].errors.clone();
        for di in 0..d.modules[mi].decls.len() {
            enum Out {
                Text(String),
                Err(String),
                Fn(String, usize, u8, Vec<String>, bool),
            }
            let out = match &d.modules[mi].decls[di] {
                Decl::Adt(n) => match d.emit_adt(n) {
                    Ok(s) => Out::Text(s),
                    Err(e) => Out::Err(e),
                },
                Decl::Const(_, _, text) => Out::Text(text.clone()),
                Decl::Fn(j) => {
                    let job = &d.jobs[*j];
                    match d.translate_fn(job) {
                        Ok((s, mode, sites, uw)) => Out::Fn(s, job.info_idx, mode, sites, uw),
                        Err(e) => Out::Err(format!("{} `{}`: {}", job.file, d.tables.fns[job.info_idx].key, e)),
                    }
                }
            };
            match out {
                Out::Text(s) => body.push_str(&s),
                Out::Err(e) => errors.push(e),
                Out::Fn(s, idx, mode, sites, uw) => {
                    body.push_str(&s);
                    d.tables.fns[idx].usize_w = uw;
                    d.tables.fns[idx].fuel = mode == 2;
                    d.tables.fns[idx].partial = mode == 1;
                    d.tables.fns[idx].panic_sites = sites;
                }
            }
            body.push('\n');
        }
        let m = &d.modules[mi];
        let mut out = String::new();
        if errors.is_empty() {
            writeln!(out, "(* GENERATED by translate/r2c from the Rust source tree - do not edit.").unwrap();
            writeln!(out, "   Every definition is the expression-level translation of the Rust function named in the").unwrap();
            writeln!(out, "   comment above it (file:lines, FNV-1a hash of the source text). *)").unwrap();
            writeln!(out, "From EG Require Import Base.Prelude Base.Casts.").unwrap();
            for i in m.imports.iter() {
                writeln!(out, "From EG Require Import {}.", i).unwrap();
            }
            out.push('\n');
            out.push_str(&body);
        } else {
            failed = true;
            writeln!(out, "(* GENERATED stub: translate/r2c refused the source tree; this file deliberately does not compile,").unwrap();
            writeln!(out, "   so that no proof can be checked against definitions of an earlier tree.").unwrap();
            for e in errors.iter() {
                let e = e.replace("*)", "* )").replace("(*", "( *");
                writeln!(out, "   {}", e).unwrap();
                eprintln!("r2c: {}: {}", m.name, e);
            }
            writeln!(out, "*)").unwrap();
            writeln!(out, "Definition r2c_translation_failed : False := I.").unwrap();
        }
        outputs.push((m.name.clone(), out));
    }
    for e in fatal.iter() {
        eprintln!("r2c: {}", e);
        failed = true;
    }
    std::fs::create_dir_all(outdir).ok();
    for (name, content) in outputs {
        let p = outdir.join(format!("{}.v", name));
        let ch = write_if_changed(&p, &content);
        println!("r2c: {} {}", p.display(), if ch { "written" } else { "unchanged" });
    }
    if failed {
        std::process::exit(2);
    }
}
