//! Statement-level translation in continuation-passing style: `let`, early `return`, `?`, assignments to
//! locals / fields of locals (shadowing `let`), `&mut self` method calls on local places, if/match as
//! statements (branches that only assign are joined through a tuple; branches that return get the
//! continuation duplicated into them).
use crate::expr::strip_parens;
use crate::tr::*;
use crate::types::*;
use std::cell::RefCell;
use std::collections::BTreeMap;
use syn::*;

fn let_in(pat: &str, simple: bool, v: &str, rest: &str) -> String {
    if simple && rest.trim() == pat {
        // `let x := v in x`
        return v.to_string();
    }
    if simple {
        format!("let {} := {} in\n{}", pat, v, rest)
    } else {
        format!("let '{} := {} in\n{}", pat, v, rest)
    }
}

fn expr_attrs(e: &Expr) -> &[Attribute] {
    match e {
        Expr::Block(x) => &x.attrs,
        Expr::If(x) => &x.attrs,
        Expr::Match(x) => &x.attrs,
        Expr::Loop(x) => &x.attrs,
        Expr::While(x) => &x.attrs,
        Expr::ForLoop(x) => &x.attrs,
        Expr::Return(x) => &x.attrs,
        Expr::Assign(x) => &x.attrs,
        Expr::Binary(x) => &x.attrs,
        Expr::Call(x) => &x.attrs,
        Expr::MethodCall(x) => &x.attrs,
        Expr::Macro(x) => &x.attrs,
        Expr::Unsafe(x) => &x.attrs,
        Expr::Paren(x) => &x.attrs,
        Expr::Struct(x) => &x.attrs,
        Expr::Tuple(x) => &x.attrs,
        Expr::Path(x) => &x.attrs,
        Expr::Lit(x) => &x.attrs,
        Expr::Break(x) => &x.attrs,
        Expr::Continue(x) => &x.attrs,
        Expr::Try(x) => &x.attrs,
        Expr::Let(x) => &x.attrs,
        _ => &[],
    }
}

fn is_skipped_macro(m: &Macro) -> bool {
    let n = m.path.segments.last().map(|s| s.ident.to_string()).unwrap_or_default();
    // debug assertions are not part of release builds (their conditions are overflow checks, property C08's subject)
    n == "debug_assert" || n == "debug_assert_eq" || n == "debug_assert_ne"
}

fn is_assert_macro(m: &Macro) -> bool {
    let n = m.path.segments.last().map(|s| s.ident.to_string()).unwrap_or_default();
    n == "assert" || n == "assert_eq" || n == "assert_ne"
}

fn is_panic_macro(m: &Macro) -> bool {
    let n = m.path.segments.last().map(|s| s.ident.to_string()).unwrap_or_default();
    n == "panic" || n == "unreachable" || n == "unimplemented" || n == "todo"
}

impl<'a> Tr<'a> {
    /// `assert!(cond, ..)` / `assert_eq!(a, b, ..)` / `assert_ne!(a, b, ..)`: the function is partial, a failing assertion is None
    fn assert_k<T: syn::spanned::Spanned>(&mut self, mac: &Macro, at: &T, env: &Env, rest: &dyn Fn(&mut Tr<'a>) -> R<String>) -> R<String> {
        if self.gen.is_some() {
            return Err(unsupported(at, "`assert!` inside a generator"));
        }
        if !self.partial {
            self.needs_partial = true;
            return Err(unsupported(at, "`assert!` (retry as a partial function)"));
        }
        let name = mac.path.segments.last().map(|s| s.ident.to_string()).unwrap_or_default();
        let args: Vec<Expr> = mac
            .parse_body_with(syn::punctuated::Punctuated::<Expr, Token![,]>::parse_terminated)
            .map_err(|x| unsupported(at, &format!("assert! arguments: {}", x)))?
            .into_iter()
            .collect();
        let cond: String = if name == "assert" {
            let c = args.first().ok_or_else(|| unsupported(at, "assert! without a condition"))?;
            let eff = self.effects_expr(c);
            if eff.ret || !eff.assigned.is_empty() {
                return Err(unsupported(at, "assert! condition with effects"));
            }
            let v = self.pure(c, env, Some(&Ty::Bool))?;
            if v.ty != Ty::Bool {
                return Err(unsupported(at, "assert! condition that is not bool"));
            }
            v.s
        } else {
            if args.len() < 2 {
                return Err(unsupported(at, "assert_eq! / assert_ne! with fewer than two arguments"));
            }
            let fake = Expr::Binary(ExprBinary { attrs: vec![], left: Box::new(args[0].clone()), op: if name == "assert_eq" { BinOp::Eq(Default::default()) } else { BinOp::Ne(Default::default()) }, right: Box::new(args[1].clone()) });
            let eff = self.effects_expr(&fake);
            if eff.ret || !eff.assigned.is_empty() {
                return Err(unsupported(at, "assert_eq! arguments with effects"));
            }
            self.pure(&fake, env, Some(&Ty::Bool))?.s
        };
        self.panic_sites.insert(format!("{}!", name));
        let r = rest(self)?;
        Ok(format!("if {} then\n{}\nelse None", cond, r))
    }

    /// the end of a path that panics: the function is partial (result in `option`), this path is None
    fn panic_finish<T: syn::spanned::Spanned>(&mut self, at: &T, env: &Env) -> R<String> {
        if self.gen.is_some() {
            return Err(unsupported(at, "`panic!` inside a generator"));
        }
        let _ = env;
        if self.partial {
            // a partial function: no value
            self.panic_sites.insert("panic! / unreachable!".to_string());
            return Ok("None".to_string());
        }
        self.needs_partial = true;
        Err(unsupported(at, "a panicking path (retry as a partial function)"))
    }

    pub fn expr_k(&mut self, e: &Expr, env: &Env, hint: Option<&Ty>, k: K) -> R<String> {
        match e {
            Expr::Paren(p) => self.expr_k(&p.expr, env, hint, k),
            Expr::Group(p) => self.expr_k(&p.expr, env, hint, k),
            Expr::Block(b) => {
                if b.label.is_some() {
                    return Err(unsupported(e, "labelled block"));
                }
                self.stmts_k(&b.block.stmts, env, hint, k)
            }
            Expr::If(i) => self.if_k(i, env, hint, k),
            Expr::ForLoop(f) => {
                // `for pat in [e1, .., en] { body }` over an array literal is unrolled
                if f.label.is_some() {
                    return Err(unsupported(e, "labelled loop"));
                }
                let mut it: &Expr = &f.expr;
                while let Expr::Reference(r) = it {
                    it = &r.expr;
                }
                let elems: Vec<&Expr> = match it {
                    Expr::Array(a) => a.elems.iter().collect(),
                    _ => return Err(unsupported(e, "for loop over something that is not an array literal (loops are not translated; array literals are unrolled)")),
                };
                self.for_unrolled(&f.pat, &elems, 0, &f.body, env, k)
            }
            Expr::Match(m) => self.match_k(m, env, hint, k),
            Expr::Return(r) if self.gen.is_some() => match &r.expr {
                Some(x) => self.expr_k(x, env, None, &|tr, v| tr.gen_finish(v, e)),
                None => Err(unsupported(e, "`return;` inside a generator closure")),
            },
            Expr::Try(t) if self.gen.is_some() => self.expr_k(&t.expr, env, None, &|tr, v| {
                let inner = match &v.ty {
                    Ty::Option(t) => (**t).clone(),
                    _ => return Err(unsupported(e, &format!("`?` on a value of type {}", v.ty.show()))),
                };
                let x = tr.fresh("q");
                let rest = k(tr, Val { s: x.clone(), ty: inner })?;
                // the closure returns None: the generator is finished
                Ok(format!("match {} with\n| Some {} =>\n{}\n| None => Some []\nend", v.s, x, rest))
            }),
            Expr::Return(r) => {
                let rt = self.ret_ty.clone();
                match &r.expr {
                    Some(x) => self.expr_k(x, env, Some(&rt), &|tr, v| tr.finish(v, env)),
                    None => self.finish(unit(), env),
                }
            }
            Expr::Try(t) if matches!(self.ret_ty, Ty::Result(_, _)) => {
                // `?` on a Result in a function returning Result (the same error type)
                let rt = self.ret_ty.clone();
                self.expr_k(&t.expr, env, None, &|tr, v| {
                    let (okt, errt) = match &v.ty {
                        Ty::Result(a, b) => ((**a).clone(), (**b).clone()),
                        _ => return Err(unsupported(e, &format!("`?` on a value of type {} in a function returning Result", v.ty.show()))),
                    };
                    if let Ty::Result(_, fe) = &rt {
                        join(&errt, fe).map_err(|m| unsupported(e, &format!("`?` with a different error type (From conversions are not translated): {}", m)))?;
                    }
                    let x = tr.fresh("q");
                    let er = tr.fresh("er");
                    let bad = tr.finish(Val { s: format!("(inr {})", er), ty: rt.clone() }, env)?;
                    let rest = k(tr, Val { s: x.clone(), ty: okt })?;
                    Ok(format!("match {} with\n| inl {} =>\n{}\n| inr {} => {}\nend", v.s, x, rest, er, bad))
                })
            }
            Expr::Try(t) => {
                let rt = self.ret_ty.clone();
                if !matches!(rt, Ty::Option(_)) {
                    return Err(unsupported(e, "`?` in a function that does not return Option"));
                }
                self.expr_k(&t.expr, env, None, &|tr, v| {
                    let inner = match &v.ty {
                        Ty::Option(t) => (**t).clone(),
                        _ => return Err(unsupported(e, &format!("`?` on a value of type {}", v.ty.show()))),
                    };
                    let x = tr.fresh("q");
                    let none = tr.finish(Val { s: "None".into(), ty: rt.clone() }, env)?;
                    let rest = k(tr, Val { s: x.clone(), ty: inner })?;
                    Ok(format!("match {} with\n| Some {} =>\n{}\n| None => {}\nend", v.s, x, rest, none))
                })
            }
            Expr::Assign(a) => self.assign_k(&a.left, None, &a.right, env, e, k),
            Expr::Binary(b) if is_compound(&b.op) => self.assign_k(&b.left, Some(&b.op), &b.right, env, e, k),
            Expr::Macro(m) if is_skipped_macro(&m.mac) => k(self, unit()),
            Expr::Macro(m) if is_panic_macro(&m.mac) => self.panic_finish(e, env),
            Expr::Macro(m) if is_assert_macro(&m.mac) => {
                let mac = m.mac.clone();
                self.assert_k(&mac, e, env, &|tr| k(tr, unit()))
            }
            Expr::MethodCall(m) if m.method == "for_each" && m.args.len() == 1 && matches!(&*m.receiver, Expr::MethodCall(r) if r.method == "iter_mut" && r.args.is_empty()) && matches!(&m.args[0], Expr::Closure(c) if c.inputs.len() == 1) => {
                // `array_place.iter_mut().for_each(|v| body)`: unrolled; in body `*v` is the i-th component of the place
                let place: &Expr = match &*m.receiver {
                    Expr::MethodCall(r) => &r.receiver,
                    _ => unreachable!(),
                };
                let cl = match &m.args[0] {
                    Expr::Closure(c) => c.clone(),
                    _ => unreachable!(),
                };
                let pv = self.pure(place, env, None)?;
                let n = match &pv.ty {
                    Ty::Tuple(ts) => ts.len(),
                    t => return Err(unsupported(e, &format!("`iter_mut().for_each(..)` on a value of type {} (only an array of 2..8 elements)", t.show()))),
                };
                let pname = match &cl.inputs[0] {
                    Pat::Ident(i) if i.by_ref.is_none() && i.subpat.is_none() => i.ident.to_string(),
                    _ => return Err(unsupported(e, "closure parameter of `for_each`")),
                };
                struct Sub {
                    name: String,
                    place: Expr,
                    bad: bool,
                }
                impl syn::visit_mut::VisitMut for Sub {
                    fn visit_expr_mut(&mut self, x: &mut Expr) {
                        if let Expr::Unary(u) = x {
                            if matches!(u.op, UnOp::Deref(_)) {
                                if let Expr::Path(p) = &*u.expr {
                                    if p.path.is_ident(&self.name) {
                                        *x = self.place.clone();
                                        return;
                                    }
                                }
                            }
                        }
                        if let Expr::Path(p) = x {
                            if p.path.is_ident(&self.name) {
                                self.bad = true; // the reference itself (not `*v`) is used
                            }
                        }
                        syn::visit_mut::visit_expr_mut(self, x);
                    }
                }
                let mut stmts: Vec<Stmt> = vec![];
                for i in 0..n {
                    let comp: Expr = Expr::Field(ExprField { attrs: vec![], base: Box::new(place.clone()), dot_token: Default::default(), member: Member::Unnamed(Index { index: i as u32, span: proc_macro2::Span::call_site() }) });
                    let mut body: Expr = (*cl.body).clone();
                    let mut sv = Sub { name: pname.clone(), place: comp, bad: false };
                    syn::visit_mut::VisitMut::visit_expr_mut(&mut sv, &mut body);
                    if sv.bad {
                        return Err(unsupported(e, "`for_each` closure that uses its parameter other than as `*v`"));
                    }
                    stmts.push(Stmt::Expr(body, Some(Default::default())));
                }
                self.stmts_k(&stmts, env, None, k)
            }
            Expr::MethodCall(m) if m.method == "zip" && m.args.len() == 1 => {
                // `a.zip(b)`: the list of pairs (List.combine); an iterator value with a configured `next` is first driven to
                // the list it yields (fuel)
                let arg = m.args[0].clone();
                self.expr_k(&m.receiver, env, None, &|tr, recv| {
                    let bv = tr.pure(&arg, env, None)?;
                    let bt = match &bv.ty {
                        Ty::Slice(t) | Ty::Iter(t) => (**t).clone(),
                        t => return Err(unsupported(e, &format!("`zip` with a value of type {} (only a list)", t.show()))),
                    };
                    match &recv.ty {
                        Ty::Slice(at) | Ty::Iter(at) => {
                            let ty = Ty::Slice(Box::new(Ty::Tuple(vec![(**at).clone(), bt])));
                            k(tr, Val { s: format!("(List.combine {} {})", recv.s, bv.s), ty })
                        }
                        Ty::Adt(_) => {
                            let (ls, lt) = tr.collect_iter(&recv, e)?;
                            let at = match &lt {
                                Ty::Slice(t) => (**t).clone(),
                                _ => unreachable!(),
                            };
                            let l = tr.fresh("items");
                            let ty = Ty::Slice(Box::new(Ty::Tuple(vec![at, bt])));
                            let rest = k(tr, Val { s: format!("(List.combine {} {})", l, bv.s), ty })?;
                            Ok(format!("match {} with\n| Some {} =>\n{}\n| None => None\nend", ls, l, rest))
                        }
                        t => Err(unsupported(e, &format!("`zip` on a value of type {}", t.show()))),
                    }
                })
            }
            Expr::MethodCall(m) if m.method == "map" && m.args.len() == 1 && matches!(&m.args[0], Expr::Closure(c) if c.inputs.len() == 1) && matches!(self.pure(&m.receiver, env, None).map(|v| v.ty), Ok(Ty::Slice(_))) => self.list_map_k(m, env, e, k),
            Expr::Call(c) if Self::from_fn_closure(e).is_some() => {
                let _ = c;
                self.generator_k(e, env, k)
            }
            Expr::MethodCall(m) if m.method == "flatten" && m.args.is_empty() && Self::from_fn_closure(&m.receiver).is_some() => self.generator_k(e, env, k),
            Expr::MethodCall(m) if ((m.method == "unwrap" && m.args.is_empty()) || (m.method == "expect" && m.args.len() == 1)) && self.partial && !matches!(&*m.receiver, Expr::MethodCall(r) if r.method == "try_into") => {
                // in a partial function (result in `option`): `opt.unwrap()` on None / `res.unwrap()` on Err is the panic: None
                self.panic_sites.insert("unwrap / expect".to_string());
                self.expr_k(&m.receiver, env, None, &|tr, v| {
                    let x = tr.fresh("u");
                    match &v.ty {
                        Ty::Option(t) => {
                            let rest = k(tr, Val { s: x.clone(), ty: (**t).clone() })?;
                            Ok(format!("match {} with\n| Some {} =>\n{}\n| None => None\nend", v.s, x, rest))
                        }
                        Ty::Result(t, _) => {
                            let rest = k(tr, Val { s: x.clone(), ty: (**t).clone() })?;
                            Ok(format!("match {} with\n| inl {} =>\n{}\n| inr _ => None\nend", v.s, x, rest))
                        }
                        _ => Err(unsupported(e, &format!("`unwrap()` on a value of type {} (only Option / Result)", v.ty.show()))),
                    }
                })
            }
            Expr::MethodCall(m) if m.method == "inspect" && m.args.len() == 1 && matches!(&m.args[0], Expr::Closure(c) if c.inputs.len() == 1 && matches!(c.inputs[0], Pat::Wild(_))) => {
                // `opt.inspect(|_| { statements })`: the statements run when `opt` is Some; the value is `opt`
                let body: &Expr = match &m.args[0] {
                    Expr::Closure(c) => &c.body,
                    _ => unreachable!(),
                };
                self.expr_k(&m.receiver, env, hint, &|tr, v| {
                    if !matches!(v.ty, Ty::Option(_)) {
                        return Err(unsupported(e, &format!("`inspect` on a value of type {} (only Option)", v.ty.show())));
                    }
                    let x = tr.fresh("v");
                    let vt = v.ty.clone();
                    let some = tr.expr_k(body, env, None, &|tr2, _| k(tr2, Val { s: format!("(Some {})", x), ty: vt.clone() }))?;
                    let none = k(tr, Val { s: "None".into(), ty: v.ty.clone() })?;
                    Ok(format!("match {} with\n| Some {} =>\n{}\n| None =>\n{}\nend", v.s, x, some, none))
                })
            }
            Expr::MethodCall(m) if Self::get_mut_chain(m).is_some() => self.get_mut_chain_k(m, env, e, k),
            Expr::MethodCall(m) if m.method == "copy_from_slice" && m.args.len() == 1 && (matches!(strip_parens(&m.receiver), Expr::Index(_)) || matches!(self.pure(&m.receiver, env, None).map(|v| v.ty), Ok(Ty::Tuple(_)))) => self.array_copy_k(m, env, e, k),
            Expr::MethodCall(m) if Self::view_chain(m).is_some() => self.view_chain_k(m, env, e, k),
            Expr::Loop(l) => {
                if l.label.is_some() {
                    return Err(unsupported(e, "labelled loop"));
                }
                self.loop_k(None, &l.body, env, e, k)
            }
            Expr::While(w) => {
                if w.label.is_some() || matches!(&*w.cond, Expr::Let(_)) {
                    return Err(unsupported(e, "labelled loop / `while let`"));
                }
                self.loop_k(Some(&w.cond), &w.body, env, e, k)
            }
            Expr::Break(b) => {
                if b.label.is_some() || b.expr.is_some() {
                    return Err(unsupported(e, "`break` with a label or a value"));
                }
                match self.loops.last() {
                    Some((c, _)) if c == "@@FOR@@" => Err(unsupported(e, "`break` inside a `for` over an array literal (the loop is unrolled)")),
                    Some((_, brk)) => Ok(brk.clone()),
                    None => Err(unsupported(e, "`break` outside a loop")),
                }
            }
            Expr::Continue(c) => {
                if c.label.is_some() {
                    return Err(unsupported(e, "`continue` with a label"));
                }
                match self.loops.last() {
                    Some((c, _)) if c == "@@FOR@@" => Err(unsupported(e, "`continue` inside a `for` over an array literal (the loop is unrolled)")),
                    Some((cont, _)) => Ok(cont.clone()),
                    None => Err(unsupported(e, "`continue` outside a loop")),
                }
            }
            _ => {
                let eff = self.effects_expr(e);
                if eff.ret || !eff.assigned.is_empty() {
                    return self.hoist_k(e, env, hint, k);
                }
                let v = self.pure(e, env, hint)?;
                k(self, v)
            }
        }
    }

    pub fn stmts_k(&mut self, stmts: &[Stmt], env: &Env, hint: Option<&Ty>, k: K) -> R<String> {
        if stmts.is_empty() {
            return k(self, unit());
        }
        let (first, rest) = (&stmts[0], &stmts[1..]);
        {
            // attributes inside a body (`#[cfg(..)]`, `#[cfg_attr(..)]`, ...) change what is compiled: fail closed
            let attrs: &[Attribute] = match first {
                Stmt::Local(l) => &l.attrs,
                Stmt::Macro(m) => &m.attrs,
                Stmt::Expr(e, _) => expr_attrs(e),
                Stmt::Item(_) => &[],
            };
            if let Some(a) = attrs.iter().find(|a| !(a.path().is_ident("allow") || a.path().is_ident("doc") || a.path().is_ident("inline") || a.path().is_ident("rustfmt"))) {
                return Err(unsupported(first, &format!("attribute `#[{}..]` on a statement or expression inside a function body", a.path().segments.last().map(|s| s.ident.to_string()).unwrap_or_default())));
            }
        }
        match first {
            Stmt::Local(l) => {
                let init = match &l.init {
                    Some(i) => i,
                    None => return Err(unsupported(first, "`let` without initialiser")),
                };
                if init.diverge.is_some() {
                    return Err(unsupported(first, "let-else"));
                }
                let (pat, ann) = match &l.pat {
                    Pat::Type(pt) => (&*pt.pat, Some(self.ty(&pt.ty)?)),
                    p => (p, None),
                };
                if let (Expr::Closure(cl), Pat::Ident(pi)) = (&*init.expr, pat) {
                    // a local closure becomes a local Gallina function; parameters need type annotations
                    let mut env2 = env.clone();
                    let mut binders = String::new();
                    let mut ptys = vec![];
                    for inp in cl.inputs.iter() {
                        match inp {
                            Pat::Type(pt) => {
                                let t = self.ty(&pt.ty)?;
                                match &*pt.pat {
                                    Pat::Ident(i) if i.subpat.is_none() => {
                                        let c = self.fresh(&i.ident.to_string());
                                        binders.push_str(&format!(" ({} : {})", c, self.t.coq_ty(&t)?));
                                        env2.push(&i.ident.to_string(), var(c, t.clone()));
                                    }
                                    _ => return Err(unsupported(first, "closure parameter that is not `name: type`")),
                                }
                                ptys.push(t);
                            }
                            _ => return Err(unsupported(first, "closure parameter without a type annotation")),
                        }
                    }
                    let rhint = match &cl.output {
                        ReturnType::Type(_, t) => Some(self.ty(t)?),
                        ReturnType::Default => None,
                    };
                    let body = self.pure(&cl.body, &env2, rhint.as_ref())?;
                    let n = pi.ident.to_string();
                    let c = self.fresh(&n);
                    let mut env3 = env.clone();
                    env3.push(&n, var(c.clone(), Ty::Fn(ptys, Box::new(body.ty.clone()))));
                    let r = self.stmts_k(rest, &env3, hint, k)?;
                    return Ok(let_in(&c, true, &format!("(fun{} =>\n{})", binders, body.s), &r));
                }
                // `let x = e.saturating_as();` / `.into()` without annotation: the type comes from the first use of x as an
                // argument of a configured function
                let ann = match (&ann, pat, &*init.expr) {
                    (None, Pat::Ident(pi), Expr::MethodCall(mc)) if (mc.method == "saturating_as" || mc.method == "into") && mc.turbofish.is_none() => {
                        self.infer_from_use(&pi.ident.to_string(), rest)
                    }
                    (None, Pat::Ident(pi), Expr::MethodCall(mc)) if mc.method == "unwrap" && matches!(&*mc.receiver, Expr::MethodCall(i) if i.method == "try_into") => {
                        self.infer_from_use(&pi.ident.to_string(), rest)
                    }
                    _ => ann,
                };
                let fa = self.fn_assigned.clone();
                if let Some((env2, lets)) = self.alias_let(pat, &init.expr, env, &fa)? {
                    let mut r = self.stmts_k(rest, &env2, hint, k)?;
                    for (c, v) in lets.iter().rev() {
                        r = let_in(c, true, v, &r);
                    }
                    return Ok(r);
                }
                self.expr_k(&init.expr, env, ann.as_ref(), &|tr, v| {
                    let vty = match &ann {
                        Some(a) => join(&v.ty, a).map_err(|m| unsupported(first, &m))?,
                        None => v.ty.clone(),
                    };
                    let mut env2 = env.clone();
                    let ps = tr.bind_pat(pat, &vty, &mut env2)?;
                    let simple = matches!(pat, Pat::Ident(_) | Pat::Wild(_));
                    let r = tr.stmts_k(rest, &env2, hint, k)?;
                    Ok(let_in(&ps, simple, &v.s, &r))
                })
            }
            Stmt::Expr(e, semi) => {
                if rest.is_empty() && semi.is_none() {
                    self.expr_k(e, env, hint, k)
                } else {
                    self.expr_k(e, env, None, &|tr, _v| tr.stmts_k(rest, env, hint, k))
                }
            }
            Stmt::Item(Item::Const(c)) => {
                let ty = self.ty(&c.ty)?;
                let v = self.pure(&c.expr, env, Some(&ty))?;
                let vty = join(&v.ty, &ty).map_err(|m| unsupported(first, &m))?;
                let n = c.ident.to_string();
                let cq = self.fresh(&n);
                let mut env2 = env.clone();
                env2.push(&n, var(cq.clone(), vty));
                let r = self.stmts_k(rest, &env2, hint, k)?;
                Ok(let_in(&cq, true, &v.s, &r))
            }
            Stmt::Macro(m) if is_assert_macro(&m.mac) => {
                let mac = m.mac.clone();
                self.assert_k(&mac, first, env, &|tr| tr.stmts_k(rest, env, hint, k))
            }
            Stmt::Macro(m) if is_panic_macro(&m.mac) => {
                // `panic!(..)`: this path has no value in Rust; the function ends here with the current state and a default
                // result (the translated definitions describe the non-panicking runs only)
                self.panic_finish(first, env)
            }
            Stmt::Macro(m) => {
                if is_skipped_macro(&m.mac) {
                    self.stmts_k(rest, env, hint, k)
                } else {
                    Err(unsupported(first, &format!("macro `{}!` as a statement", m.mac.path.segments.last().map(|s| s.ident.to_string()).unwrap_or_default())))
                }
            }
            _ => Err(unsupported(first, "item declaration inside a function body")),
        }
    }

    /// `for pat in [e1, .., en] { body }`: the array is built first (all elements evaluated, in order), then the body is
    /// unrolled once per element
    fn for_unrolled(&mut self, pat: &Pat, elems: &[&Expr], i: usize, body: &Block, env: &Env, k: K) -> R<String> {
        if i == 0 {
            // evaluate the elements eagerly into temporaries
            let mut env2 = env.clone();
            let mut lets: Vec<(String, String)> = vec![];
            let mut names: Vec<Expr> = vec![];
            for x in elems.iter() {
                let eff = self.effects_expr(x);
                if eff.ret || !eff.assigned.is_empty() {
                    return Err(unsupported(*x, "array element with effects in a `for` over an array literal"));
                }
                let v = self.pure(x, &env2, None)?;
                let (e3, rn, cn) = self.bind_tmp(&env2, &v);
                env2 = e3;
                lets.push((cn, v.s));
                names.push(crate::effects::path_expr_of(&rn));
            }
            let refs: Vec<&Expr> = names.iter().collect();
            // `break` / `continue` inside the unrolled body would refer to this `for`: not translated
            self.loops.push(("@@FOR@@".into(), "@@FOR@@".into()));
            let r = self.for_unrolled_from(pat, &refs, 0, body, &env2, env, k);
            self.loops.pop();
            let mut r = r?;
            for (c, v) in lets.iter().rev() {
                r = let_in(c, true, v, &r);
            }
            return Ok(r);
        }
        unreachable!()
    }

    #[allow(clippy::too_many_arguments)]
    fn for_unrolled_from(&mut self, pat: &Pat, elems: &[&Expr], i: usize, body: &Block, env: &Env, env_after: &Env, k: K) -> R<String> {
        if i == elems.len() {
            // the continuation after the loop is translated outside the `for` frame
            let frame = self.loops.pop();
            let r = k(self, unit());
            if let Some(f) = frame {
                self.loops.push(f);
            }
            let _ = env_after;
            return r;
        }
        let v = self.pure(elems[i], env, None)?;
        let mut env2 = env.clone();
        let ps = self.bind_pat(pat, &v.ty, &mut env2)?;
        let simple = matches!(pat, Pat::Ident(_) | Pat::Wild(_));
        let rest = self.stmts_k(&body.stmts, &env2, None, &|tr, _v| tr.for_unrolled_from(pat, elems, i + 1, body, env, env_after, k))?;
        Ok(let_in(&ps, simple, &v.s, &rest))
    }

    /// the parameter type of the first configured function that gets the variable `name` as a direct argument
    fn infer_from_use(&self, name: &str, rest: &[Stmt]) -> Option<Ty> {
        struct V<'t> {
            name: String,
            fns: &'t Vec<FnInfo>,
            found: Option<Ty>,
            conflict: bool,
        }
        impl<'ast, 't> syn::visit::Visit<'ast> for V<'t> {
            fn visit_expr_method_call(&mut self, m: &'ast ExprMethodCall) {
                self.check(&m.method.to_string(), m.args.iter().collect());
                syn::visit::visit_expr_method_call(self, m);
            }
            fn visit_expr_call(&mut self, c: &'ast ExprCall) {
                if let Expr::Path(p) = &*c.func {
                    if let Some(s) = p.path.segments.last() {
                        self.check(&s.ident.to_string(), c.args.iter().collect());
                    }
                    // `uN::from_le_bytes(name)` / `from_be_bytes`: name is a `[u8; N/8]`
                    if p.path.segments.len() == 2 && c.args.len() == 1 {
                        let f = p.path.segments[1].ident.to_string();
                        if let (Some(t), true, Expr::Path(a)) = (IntTy::from_name(&p.path.segments[0].ident.to_string()), f == "from_le_bytes" || f == "from_be_bytes", &c.args[0]) {
                            if a.path.is_ident(&self.name) {
                                let ty = Ty::Tuple(vec![Ty::int(IntTy::U8); (t.bits() / 8) as usize]);
                                match &self.found {
                                    None => self.found = Some(ty),
                                    Some(old) if *old != ty => self.conflict = true,
                                    _ => {}
                                }
                            }
                        }
                    }
                }
                syn::visit::visit_expr_call(self, c);
            }
        }
        impl<'t> V<'t> {
            fn check(&mut self, fname: &str, args: Vec<&Expr>) {
                if self.found.is_some() {
                    return;
                }
                for (i, a) in args.iter().enumerate() {
                    if let Expr::Path(p) = a {
                        if p.path.is_ident(&self.name) {
                            let tys: Vec<&Ty> = self.fns.iter().filter(|f| f.name == fname && f.params.len() > i).map(|f| &f.params[i].1).collect();
                            if !tys.is_empty() && tys.iter().all(|t| *t == tys[0]) {
                                self.found = Some(tys[0].clone());
                            }
                        }
                    }
                }
            }
        }
        let mut v = V { name: name.to_string(), fns: &self.t.fns, found: None, conflict: false };
        for st in rest {
            syn::visit::Visit::visit_stmt(&mut v, st);
        }
        if v.conflict {
            return None;
        }
        v.found
    }


    /// `slice.get_mut(i).ok_or(err).map(|b| { *b = v; })`: (slice place, index, error, closure)
    fn get_mut_chain(m: &ExprMethodCall) -> Option<(&Expr, &Expr, &Expr, &ExprClosure)> {
        if m.method != "map" || m.args.len() != 1 {
            return None;
        }
        let cl = match &m.args[0] {
            Expr::Closure(c) if c.inputs.len() == 1 => c,
            _ => return None,
        };
        let ok = match &*m.receiver {
            Expr::MethodCall(o) if o.method == "ok_or" && o.args.len() == 1 => o,
            _ => return None,
        };
        let gm = match &*ok.receiver {
            Expr::MethodCall(g) if g.method == "get_mut" && g.args.len() == 1 => g,
            _ => return None,
        };
        Some((&gm.receiver, &gm.args[0], &ok.args[0], cl))
    }

    fn get_mut_chain_k(&mut self, m: &ExprMethodCall, env: &Env, at: &Expr, k: K) -> R<String> {
        let (sl, idx, err, cl) = Self::get_mut_chain(m).unwrap();
        let (root, path) = self.target_of(sl)?;
        let sv = self.pure(sl, env, None)?;
        let elem = match &sv.ty {
            Ty::Slice(t) => (**t).clone(),
            t => return Err(unsupported(at, &format!("get_mut on a value of type {}", t.show()))),
        };
        let iv = self.pure(idx, env, Some(&Ty::int(IntTy::Usize)))?;
        if !iv.ty.is_int() {
            return Err(unsupported(at, "get_mut with a range"));
        }
        let ev = self.pure(err, env, None)?;
        // the closure must be `|b| { *b = value; }` (or `|b| *b = value`)
        let pname = match &cl.inputs[0] {
            Pat::Ident(i) => i.ident.to_string(),
            _ => return Err(unsupported(at, "closure parameter of the get_mut idiom")),
        };
        let assign: &ExprAssign = match &*cl.body {
            Expr::Assign(a) => a,
            Expr::Block(b) if b.block.stmts.len() == 1 => match &b.block.stmts[0] {
                Stmt::Expr(Expr::Assign(a), _) => a,
                _ => return Err(unsupported(at, "closure body of the get_mut idiom is not a single assignment")),
            },
            _ => return Err(unsupported(at, "closure body of the get_mut idiom is not a single assignment")),
        };
        if place_root(&assign.left).as_deref() != Some(pname.as_str()) {
            return Err(unsupported(at, "the get_mut closure assigns to something else than its parameter"));
        }
        let b = self.fresh(&pname);
        let mut env2 = env.clone();
        env2.push(&pname, var(b.clone(), elem.clone()));
        let nv = self.pure(&assign.right, &env2, Some(&elem))?;
        join(&nv.ty, &elem).map_err(|m| unsupported(at, &m))?;
        let r = self.fresh("res");
        let rty = Ty::Result(Box::new(Ty::Unit), Box::new(ev.ty.clone()));
        let rest = k(self, Val { s: r.clone(), ty: rty })?;
        let tmp = self.fresh("sl");
        let rest = self.write_place(&root, &path, env, &tmp, &rest, at)?;
        let m = format!(
            "(match Casts.slice_get {s} {i} with\n| Some {b} => (Casts.slice_set {s} {i} {v}, inl tt)\n| None => ({s}, inr {e})\nend)",
            s = sv.s,
            i = iv.s,
            b = b,
            v = nv.s,
            e = ev.s
        );
        Ok(crate::effects::let_pat(&[tmp, r], &m, &rest))
    }

    /// `list.map(|x| body)` on a list of items (a slice iterator, `str::split`, the value of an `impl Iterator` function): a pure
    /// closure is List.map; a closure that assigns to captured variables (`move |x| { ..; state += ..; .. }`) is a Fixpoint by
    /// structural recursion on the list whose other parameters are the variables in scope
    fn list_map_k(&mut self, m: &ExprMethodCall, env: &Env, at: &Expr, k: K) -> R<String> {
        let cl = match &m.args[0] {
            Expr::Closure(c) => c.clone(),
            _ => unreachable!(),
        };
        let lv = self.pure(&m.receiver, env, None)?;
        let elem = match &lv.ty {
            Ty::Slice(t) => (**t).clone(),
            _ => unreachable!(),
        };
        let body_stmts: Vec<Stmt> = match &*cl.body {
            Expr::Block(b) => b.block.stmts.clone(),
            other => vec![Stmt::Expr(other.clone(), None)],
        };
        let eff = self.effects_stmts(&body_stmts);
        if eff.ret {
            return Err(unsupported(at, "`map` closure with `return` / `?` / loops / fuelled calls"));
        }
        if eff.assigned.contains("<complex place>") {
            return Err(unsupported(at, "assignment to something that is not a local variable or a field path of one"));
        }
        let mut env2 = env.clone();
        let pat = self.bind_pat(&cl.inputs[0], &elem, &mut env2)?;
        let captured_writes = eff.assigned.iter().any(|n| env.get(n).is_some());
        if !captured_writes {
            let cell: RefCell<Option<Ty>> = RefCell::new(None);
            let body = self.stmts_k(&body_stmts, &env2, None, &|_tr, v| {
                *cell.borrow_mut() = Some(v.ty.clone());
                Ok(v.s)
            })?;
            let bt = cell.into_inner().ok_or_else(|| unsupported(at, "`map` closure without a value"))?;
            return k(self, Val { s: format!("(List.map (fun x_ : {} => let '{} := x_ in\n{}) {})", self.t.coq_ty(&elem)?, pat, body, lv.s), ty: Ty::Slice(Box::new(bt)) });
        }
        if !self.loops.is_empty() || self.gen.is_some() {
            return Err(unsupported(at, "a stateful `map` inside a loop or a generator"));
        }
        let mut all: Vec<(String, String)> = vec![];
        for (n, v) in env.vars.iter() {
            if v.alias.is_some() {
                continue;
            }
            let cur = env.get(n).unwrap();
            if cur.coq != v.coq || cur.alias.is_some() {
                continue;
            }
            if all.iter().any(|(c, _)| *c == v.coq) {
                continue;
            }
            all.push((v.coq.clone(), self.t.coq_ty(&v.ty)?));
        }
        self.loop_counter += 1;
        let id = format!("{}_map{}", self.fn_coq, self.loop_counter);
        let names: Vec<String> = all.iter().map(|(c, _)| c.clone()).collect();
        let rec = format!("({} r_{})", id, names.iter().map(|n| format!(" {}", n)).collect::<String>());
        let cell: RefCell<Option<Ty>> = RefCell::new(None);
        // the captured variables are owned by the closure (`move`): inside they may be written whatever their declaration says
        let mut env3 = env2.clone();
        for n in eff.assigned.iter() {
            if let Some(v) = env3.get(n).cloned() {
                let mut v2 = v.clone();
                v2.mutable = true;
                env3.push(n, v2);
            }
        }
        let body = self.stmts_k(&body_stmts, &env3, None, &|_tr, v| {
            *cell.borrow_mut() = Some(v.ty.clone());
            Ok(format!("({} :: {})", v.s, rec))
        })?;
        let bt = cell.into_inner().ok_or_else(|| unsupported(at, "`map` closure without a value"))?;
        let mut binders = String::new();
        for (c, t) in all.iter() {
            binders.push_str(&format!(" ({} : {})", c, t));
        }
        self.aux_defs.push(format!(
            "Fixpoint {id} (l_ : list {a}){binders} {{struct l_}} : list {b} :=\nmatch l_ with\n| [] => []\n| x_ :: r_ =>\nlet '{pat} := x_ in\n{body}\nend.",
            id = id, a = self.t.coq_ty(&elem)?, binders = binders, b = self.t.coq_ty(&bt)?, pat = pat, body = body
        ));
        k(self, Val { s: format!("({} {}{})", id, lv.s, names.iter().map(|n| format!(" {}", n)).collect::<String>()), ty: Ty::Slice(Box::new(bt)) })
    }

    /// `core::iter::from_fn(move || body)`: the closure
    pub fn from_fn_closure(e: &Expr) -> Option<&ExprClosure> {
        if let Expr::Call(c) = strip_parens(e) {
            if let Expr::Path(p) = &*c.func {
                let segs: Vec<String> = p.path.segments.iter().map(|s| s.ident.to_string()).collect();
                let ok = segs.last().map(|s| s == "from_fn").unwrap_or(false) && (segs.len() == 1 || segs[segs.len() - 2] == "iter");
                if ok && c.args.len() == 1 {
                    if let Expr::Closure(cl) = &c.args[0] {
                        if cl.inputs.is_empty() {
                            return Some(cl);
                        }
                    }
                }
            }
        }
        None
    }

    /// the value the closure of a generator returns (an Option): Some v = yield v and go on, None = finished
    pub fn gen_finish(&mut self, v: Val, at: &Expr) -> R<String> {
        let (cont, flatten, cell) = match &self.gen {
            Some(g) => (g.0.clone(), g.1, &g.2),
            None => return Err(unsupported(at, "not inside a generator")),
        };
        let inner = match &v.ty {
            Ty::Option(t) => (**t).clone(),
            t => return Err(unsupported(at, &format!("a generator closure returning {} (not Option)", t.show()))),
        };
        let item = if flatten {
            match &inner {
                Ty::RangeIncl(t) if **t == Ty::Int(Some(IntTy::U32)) => (**t).clone(),
                Ty::Infer => Ty::Infer,
                t => return Err(unsupported(at, &format!("`.flatten()` over items of type {} (only RangeInclusive<char>)", t.show()))),
            }
        } else {
            inner
        };
        {
            let mut c = cell.borrow_mut();
            let nt = match &*c {
                Some(old) => join(old, &item).map_err(|m| unsupported(at, &m))?,
                None => item,
            };
            *c = Some(nt);
        }
        if v.s.trim() == "None" {
            return Ok("Some []".to_string());
        }
        let cons = if flatten { "(Casts.char_range (fst x_) (snd x_) ++ l_)" } else { "(x_ :: l_)" };
        Ok(format!("match {} with\n| Some x_ =>\n  match {} with\n  | Some l_ => Some {}\n  | None => None\n  end\n| None => Some []\nend", v.s, cont, cons))
    }

    /// `core::iter::from_fn(move || body)[.flatten()]`: the list of the items the generator yields until its first None, a
    /// Fixpoint over fuel whose parameters are the variables in scope (the captured mutable locals are rebound in the body)
    fn generator_k(&mut self, e: &Expr, env: &Env, k: K) -> R<String> {
        let (cl, flatten) = match strip_parens(e) {
            Expr::MethodCall(m) => (Self::from_fn_closure(&m.receiver).unwrap().clone(), true),
            other => (Self::from_fn_closure(other).unwrap().clone(), false),
        };
        if !self.loops.is_empty() || self.gen.is_some() {
            return Err(unsupported(e, "a generator inside a loop or another generator"));
        }
        if !self.fuel {
            self.needs_fuel = true;
            return Err(unsupported(e, "`from_fn` generator (retry with fuel)"));
        }
        let body_stmts: Vec<Stmt> = match &*cl.body {
            Expr::Block(b) => b.block.stmts.clone(),
            other => vec![Stmt::Expr(other.clone(), None)],
        };
        if self.effects_stmts(&body_stmts).assigned.contains("<complex place>") {
            return Err(unsupported(e, "assignment to something that is not a local variable or a field path of one"));
        }
        let mut all: Vec<(String, String)> = vec![];
        for (n, v) in env.vars.iter() {
            if v.alias.is_some() {
                continue;
            }
            let cur = env.get(n).unwrap();
            if cur.coq != v.coq || cur.alias.is_some() {
                continue;
            }
            if all.iter().any(|(c, _)| *c == v.coq) {
                continue;
            }
            all.push((v.coq.clone(), self.t.coq_ty(&v.ty)?));
        }
        self.loop_counter += 1;
        let id = format!("{}_gen{}", self.fn_coq, self.loop_counter);
        let f_outer = self.fuel_var.clone();
        let f_in = self.fresh("fuel");
        let names: Vec<String> = all.iter().map(|(c, _)| c.clone()).collect();
        let cont = if names.is_empty() { format!("({} {})", id, f_in) } else { format!("({} {} {})", id, f_in, names.join(" ")) };
        self.fuel_var = f_in.clone();
        self.gen = Some((cont, flatten, RefCell::new(None)));
        // the captured variables are written by the closure: they are mutable inside it whatever their declaration says
        let res = self.stmts_k(&body_stmts, env, None, &|tr, v| tr.gen_finish(v, e));
        let frame = self.gen.take();
        self.fuel_var = f_outer.clone();
        let inner = res?;
        let item = frame.and_then(|g| g.2.into_inner()).ok_or_else(|| unsupported(e, "a generator that never yields"))?;
        let it = self.t.coq_ty(&item)?;
        let mut binders = String::new();
        for (c, t) in all.iter() {
            binders.push_str(&format!(" ({} : {})", c, t));
        }
        let f0 = format!("{}_", f_in);
        self.aux_defs.push(format!(
            "Fixpoint {id} ({f0} : nat){binders} {{struct {f0}}} : option (list {it}) :=\nmatch {f0} with\n| O => None\n| Datatypes.S {f_in} =>\n{inner}\nend.",
            id = id, f0 = f0, binders = binders, it = it, f_in = f_in, inner = inner
        ));
        let g = self.fresh("gen");
        let rest = k(self, Val { s: g.clone(), ty: Ty::Slice(Box::new(item)) })?;
        Ok(format!("match ({} {}{}) with\n| Some {} =>\n{}\n| None => None\nend", id, f_outer, names.iter().map(|n| format!(" {}", n)).collect::<String>(), g, rest))
    }

    /// `arr[a..b].copy_from_slice(&src);` on a local array (N-tuple) with literal bounds and an array `src` of b - a elements
    fn array_copy_k(&mut self, m: &ExprMethodCall, env: &Env, at: &Expr, k: K) -> R<String> {
        let (dest, range): (&Expr, Option<&Expr>) = match strip_parens(&m.receiver) {
            Expr::Index(ix) => (&ix.expr, Some(&ix.index)),
            other => (other, None),
        };
        let (root, path) = self.target_of(dest)?;
        let av = self.pure(dest, env, None)?;
        if let (Ty::Slice(elem), Some(rg)) = (&av.ty, range) {
            // `list[a..b].copy_from_slice(&src)` with computed bounds: Casts.slice_copy (Rust panics when the range is
            // outside the list or its length differs from the source's; the list is unchanged here)
            let r = match strip_parens(rg) {
                Expr::Range(r) if matches!(r.limits, RangeLimits::HalfOpen(_)) => r,
                _ => return Err(unsupported(at, "`x[i].copy_from_slice(..)` whose index is not a half-open range")),
            };
            let us = Ty::int(IntTy::Usize);
            let a = match &r.start {
                Some(x) => self.pure(x, env, Some(&us))?.s,
                None => "0".to_string(),
            };
            let b = match &r.end {
                Some(x) => self.pure(x, env, Some(&us))?.s,
                None => format!("(Z.of_nat (length {}))", av.s),
            };
            let sv = self.pure(&m.args[0], env, None)?;
            let sv = crate::calls::coerce_array_to_slice(sv, &Ty::Slice(elem.clone()));
            join(&sv.ty, &av.ty).map_err(|mm| unsupported(at, &mm))?;
            if !self.partial {
                self.needs_partial = true;
                return Err(unsupported(at, "`list[a..b].copy_from_slice(..)` (panics out of range: retry as a partial function)"));
            }
            self.panic_sites.insert("copy_from_slice on a range".to_string());
            let newv = format!("(Casts.slice_copy {} {} {} {})", av.s, a, b, sv.s);
            let rest = k(self, unit())?;
            let w = self.write_place(&root, &path, env, &newv, &rest, at)?;
            return Ok(format!("if (Casts.slice_copy_ok {} {} {} {}) then\n{}\nelse None", av.s, a, b, sv.s, w));
        }
        let n = match &av.ty {
            Ty::Tuple(ts) => ts.len(),
            t => return Err(unsupported(at, &format!("`x[a..b].copy_from_slice(..)` on a value of type {} (only a local array)", t.show()))),
        };
        let lit_of = |e: &Option<Box<Expr>>, dflt: usize| -> R<usize> {
            match e.as_deref() {
                None => Ok(dflt),
                Some(Expr::Lit(ExprLit { lit: Lit::Int(i), .. })) => i.base10_parse::<usize>().map_err(|x| unsupported(at, &x.to_string())),
                Some(_) => Err(unsupported(at, "`x[a..b].copy_from_slice(..)` whose bounds are not literals")),
            }
        };
        let (a, b) = match range.map(strip_parens) {
            None => (0, n),
            Some(Expr::Range(r)) if matches!(r.limits, RangeLimits::HalfOpen(_)) => (lit_of(&r.start, 0)?, lit_of(&r.end, n)?),
            _ => return Err(unsupported(at, "`x[i].copy_from_slice(..)` whose index is not a half-open range")),
        };
        let sv = self.pure(&m.args[0], env, None)?;
        let sn = match &sv.ty {
            Ty::Tuple(ts) => ts.len(),
            t => return Err(unsupported(at, &format!("copy_from_slice from a value of type {} (only an array)", t.show()))),
        };
        if a > b || b > n || b - a != sn {
            return Err(unsupported(at, &format!("`x[{}..{}].copy_from_slice(..)` of {} elements into an array of {}: Rust panics here", a, b, sn, n)));
        }
        let dst: Vec<String> = (0..n).map(|i| format!("d{}_", i)).collect();
        let src: Vec<String> = (0..sn).map(|i| format!("s{}_", i)).collect();
        let out: Vec<String> = (0..n).map(|i| if i >= a && i < b { src[i - a].clone() } else { dst[i].clone() }).collect();
        let newv = format!("(let '({}) := {} in let '({}) := {} in ({}))", dst.join(", "), av.s, src.join(", "), sv.s, out.join(", "));
        let tmp = self.fresh("arr");
        let rest = k(self, unit())?;
        let rest = self.write_place(&root, &path, env, &tmp, &rest, at)?;
        Ok(let_in(&tmp, true, &newv, &rest))
    }

    /// `<option of a mutable sub-slice>.ok_or(err).map(|b| b.copy_from_slice(&src))`: (view option, error, closure param, src)
    fn view_chain(m: &ExprMethodCall) -> Option<(&Expr, &Expr, String, &Expr)> {
        if m.method != "map" || m.args.len() != 1 {
            return None;
        }
        let cl = match &m.args[0] {
            Expr::Closure(c) if c.inputs.len() == 1 => c,
            _ => return None,
        };
        let p = match &cl.inputs[0] {
            Pat::Ident(i) if i.by_ref.is_none() && i.subpat.is_none() => i.ident.to_string(),
            _ => return None,
        };
        let body: &Expr = match &*cl.body {
            Expr::Block(b) if b.block.stmts.len() == 1 => match &b.block.stmts[0] {
                Stmt::Expr(x, _) => x,
                _ => return None,
            },
            x => x,
        };
        let cp = match body {
            Expr::MethodCall(c) if c.method == "copy_from_slice" && c.args.len() == 1 && matches!(&*c.receiver, Expr::Path(q) if q.path.is_ident(&p)) => c,
            _ => return None,
        };
        let ok = match &*m.receiver {
            Expr::MethodCall(o) if o.method == "ok_or" && o.args.len() == 1 => o,
            _ => return None,
        };
        Some((&ok.receiver, &ok.args[0], p, &cp.args[0]))
    }

    /// an expression of type Option<&mut [T]> built from `root.get_mut(range)`, `.and_then(|v| v.get_mut(range))` and
    /// `<pure option>.and_then(|x| ..)`, as a Coq `option (Z * Z)` (offset, length) into the root slice
    fn view_opt(&mut self, e: &Expr, env: &Env, views: &BTreeMap<String, String>, root: &mut Option<(String, Val)>) -> R<String> {
        let us = Ty::int(IntTy::Usize);
        match strip_parens(e) {
            Expr::MethodCall(g) if g.method == "get_mut" && g.args.len() == 1 => {
                let rn = match strip_parens(&g.receiver) {
                    Expr::Path(p) if p.path.segments.len() == 1 => p.path.segments[0].ident.to_string(),
                    _ => return Err(unsupported(e, "get_mut(range) on something that is not a variable")),
                };
                let base = match views.get(&rn) {
                    Some(c) => c.clone(),
                    None => {
                        let v = self.pure(&g.receiver, env, None)?;
                        if !matches!(v.ty, Ty::Slice(_)) {
                            return Err(unsupported(e, &format!("get_mut(range) on a value of type {}", v.ty.show())));
                        }
                        match root {
                            Some((r, _)) if *r != rn => return Err(unsupported(e, "sub-slices of two different slices in one chain")),
                            _ => {}
                        }
                        let s = format!("(Casts.view_all {})", v.s);
                        *root = Some((rn.clone(), v));
                        s
                    }
                };
                let r = match strip_parens(&g.args[0]) {
                    Expr::Range(r) if matches!(r.limits, RangeLimits::HalfOpen(_)) => r,
                    _ => return Err(unsupported(e, "get_mut whose argument is not a half-open range (in a sub-slice chain)")),
                };
                let mut bound = |tr: &mut Tr, x: &Option<Box<Expr>>| -> R<Option<String>> {
                    match x {
                        Some(x) => {
                            let v = tr.pure(x, env, Some(&us))?;
                            join(&v.ty, &us).map_err(|m| unsupported(e, &m))?;
                            Ok(Some(v.s))
                        }
                        None => Ok(None),
                    }
                };
                let a = bound(self, &r.start)?.unwrap_or_else(|| "0".to_string());
                Ok(match bound(self, &r.end)? {
                    Some(b) => format!("(Casts.view_range {} {} {})", base, a, b),
                    None => format!("(Casts.view_from {} {})", base, a),
                })
            }
            Expr::MethodCall(a) if a.method == "and_then" && a.args.len() == 1 => {
                let cl = match &a.args[0] {
                    Expr::Closure(c) if c.inputs.len() == 1 => c,
                    _ => return Err(unsupported(e, "and_then argument that is not a one-parameter closure")),
                };
                let mut r2 = root.clone();
                if let Ok(vo) = self.view_opt(&a.receiver, env, views, &mut r2) {
                    *root = r2;
                    let p = match &cl.inputs[0] {
                        Pat::Ident(i) if i.by_ref.is_none() && i.subpat.is_none() => i.ident.to_string(),
                        _ => return Err(unsupported(e, "closure parameter of a sub-slice chain")),
                    };
                    let c = self.fresh("view");
                    let mut views2 = views.clone();
                    views2.insert(p, c.clone());
                    let body = self.view_opt(&cl.body, env, &views2, root)?;
                    return Ok(format!("(match {} with | Some {} => {} | None => None end)", vo, c, body));
                }
                let ov = self.pure(&a.receiver, env, None)?;
                let inner = match &ov.ty {
                    Ty::Option(t) => (**t).clone(),
                    t => return Err(unsupported(e, &format!("and_then on a value of type {}", t.show()))),
                };
                let mut env2 = env.clone();
                let p = self.bind_pat(&cl.inputs[0], &inner, &mut env2)?;
                // the closure parameter may shadow a view name
                let mut views2 = views.clone();
                if let Pat::Ident(i) = &cl.inputs[0] {
                    views2.remove(&i.ident.to_string());
                }
                let body = self.view_opt(&cl.body, &env2, &views2, root)?;
                Ok(format!("(match {} with | Some {} => {} | None => None end)", ov.s, p, body))
            }
            _ => Err(unsupported(e, "expression that is not a chain of get_mut(range) / and_then (mutable sub-slices are only translated in that form)")),
        }
    }

    fn view_chain_k(&mut self, m: &ExprMethodCall, env: &Env, at: &Expr, k: K) -> R<String> {
        let (vo_e, err, _p, src) = Self::view_chain(m).unwrap();
        let mut root: Option<(String, Val)> = None;
        let vo = self.view_opt(vo_e, env, &BTreeMap::new(), &mut root)?;
        let (rname, rv) = root.ok_or_else(|| unsupported(at, "sub-slice chain without a root slice"))?;
        let elem = match &rv.ty {
            Ty::Slice(t) => (**t).clone(),
            _ => unreachable!(),
        };
        let ev = self.pure(err, env, None)?;
        let sv = self.pure(src, env, None)?;
        let src_list = match &sv.ty {
            Ty::Tuple(ts) if ts.iter().all(|t| join(t, &elem).is_ok()) => {
                let names: Vec<String> = (0..ts.len()).map(|i| format!("s{}_", i)).collect();
                format!("(let '({}) := {} in [{}])", names.join(", "), sv.s, names.join("; "))
            }
            Ty::Slice(t) if join(t, &elem).is_ok() => sv.s.clone(),
            t => return Err(unsupported(at, &format!("copy_from_slice from a value of type {}", t.show()))),
        };
        let (root_var, path) = self.target_of(&syn::parse_str::<Expr>(&rname).map_err(|x| x.to_string())?)?;
        let r = self.fresh("res");
        let rty = Ty::Result(Box::new(Ty::Unit), Box::new(ev.ty.clone()));
        let rest = k(self, Val { s: r.clone(), ty: rty })?;
        let tmp = self.fresh("sl");
        let rest = self.write_place(&root_var, &path, env, &tmp, &rest, at)?;
        let view = self.fresh("view");
        let mm = format!("(match {vo} with\n| Some {v} => (Casts.view_copy {s} {v} {src}, inl tt)\n| None => ({s}, inr {e})\nend)", vo = vo, v = view, s = rv.s, src = src_list, e = ev.s);
        Ok(crate::effects::let_pat(&[tmp, r], &mm, &rest))
    }

    fn body_k(&mut self, b: &Body, env: &Env, hint: Option<&Ty>, k: K) -> R<String> {
        match b {
            Body::Stmts(s) => self.stmts_k(s, env, hint, k),
            Body::Expr(e) => self.expr_k(e, env, hint, k),
            Body::Empty => k(self, unit()),
        }
    }

    /// common part of if / match: `bodies` are the branch bodies with the environment of each branch,
    /// `render` builds the Gallina if/match from the translated branches.
    fn branches(&mut self, bodies: Vec<(Env, Body)>, render: &dyn Fn(&[String]) -> String, env: &Env, hint: Option<&Ty>, k: K) -> R<String> {
        let mut eff = Eff::default();
        for (_, b) in bodies.iter() {
            let e = self.effects_body_pub(b);
            eff.ret |= e.ret;
            eff.assigned.extend(e.assigned);
        }
        if eff.assigned.contains("<complex place>") {
            return Err("unsupported construct: assignment to something that is not a local variable or a field path of one".into());
        }
        if eff.ret {
            // some branch leaves the function: the continuation is duplicated into every branch
            let mut strs = vec![];
            for (benv, b) in bodies.iter() {
                strs.push(self.body_k(b, benv, hint, k)?);
            }
            return Ok(render(&strs));
        }
        // branches only compute a value and/or assign to outer variables: join through a tuple
        let mm: Vec<(String, Var)> = self.mutated_vars(&eff.assigned, env);
        let cell: RefCell<Option<Ty>> = RefCell::new(None);
        let mut strs = vec![];
        for (benv, b) in bodies.iter() {
            let mm2 = mm.clone();
            let s = self.body_k(b, benv, hint, &|_tr, v| {
                {
                    let mut c = cell.borrow_mut();
                    let nt = match &*c {
                        Some(old) => join(old, &v.ty)?,
                        None => v.ty.clone(),
                    };
                    *c = Some(nt);
                }
                let mut comps: Vec<String> = mm2.iter().map(|(_, var)| var.coq.clone()).collect();
                if v.ty != Ty::Unit {
                    comps.push(v.s.clone());
                }
                Ok(match comps.len() {
                    0 => "tt".to_string(),
                    1 => comps[0].clone(),
                    _ => format!("({})", comps.join(", ")),
                })
            })?;
            strs.push(s);
        }
        let ty = cell.into_inner().unwrap_or(Ty::Unit);
        let whole = render(&strs);
        let has_val = ty != Ty::Unit;
        match (mm.len(), has_val) {
            (0, false) => k(self, unit()),
            (0, true) => k(self, Val { s: format!("({})", whole), ty }),
            (1, false) => {
                let r = k(self, unit())?;
                Ok(let_in(&mm[0].1.coq, true, &whole, &r))
            }
            _ => {
                let mut names: Vec<String> = mm.iter().map(|(_, v)| v.coq.clone()).collect();
                let rv = if has_val {
                    let x = self.fresh("r");
                    names.push(x.clone());
                    Val { s: x, ty }
                } else {
                    unit()
                };
                let r = k(self, rv)?;
                Ok(let_in(&format!("({})", names.join(", ")), false, &whole, &r))
            }
        }
    }

    pub fn effects_body_pub(&self, b: &Body) -> Eff {
        match b {
            Body::Stmts(s) => self.effects_stmts(s),
            Body::Expr(e) => self.effects_expr(e),
            Body::Empty => Eff::default(),
        }
    }

    pub fn if_k(&mut self, i: &ExprIf, env: &Env, hint: Option<&Ty>, k: K) -> R<String> {
        let else_body = match &i.else_branch {
            Some((_, e)) => Body::Expr(e),
            None => Body::Empty,
        };
        {
            // a condition with effects (a `&mut self` call, `x.next()`, a fuelled call) is evaluated first
            let ce: &Expr = match &*i.cond {
                Expr::Let(l) => &l.expr,
                c => c,
            };
            let eff = self.effects_expr(ce);
            if eff.ret || !eff.assigned.is_empty() {
                return self.expr_k(ce, env, None, &|tr, v| {
                    let (env2, rn, cn) = tr.bind_tmp(env, &v);
                    let mut i2 = i.clone();
                    match &mut *i2.cond {
                        Expr::Let(l) => *l.expr = crate::effects::path_expr_of(&rn),
                        c => *c = crate::effects::path_expr_of(&rn),
                    }
                    let rest = tr.if_k(&i2, &env2, hint, k)?;
                    Ok(crate::effects::let_pat(&[cn], &v.s, &rest))
                });
            }
        }
        if let Expr::Let(l) = &*i.cond {
            let sc = self.pure(&l.expr, env, None)?;
            let mut env2 = env.clone();
            let ps = self.bind_pat(&l.pat, &sc.ty, &mut env2)?;
            let bodies = vec![(env2, Body::Stmts(&i.then_branch.stmts)), (env.clone(), else_body)];
            let scs = sc.s.clone();
            return self.branches(bodies, &|s| format!("match {} with\n| {} =>\n{}\n| _ =>\n{}\nend", scs, ps, s[0], s[1]), env, hint, k);
        }
        let c = self.pure(&i.cond, env, Some(&Ty::Bool))?;
        if c.ty != Ty::Bool {
            return Err(unsupported(&*i.cond, "`if` condition that is not bool"));
        }
        let bodies = vec![(env.clone(), Body::Stmts(&i.then_branch.stmts)), (env.clone(), else_body)];
        let cs = c.s.clone();
        self.branches(bodies, &|s| format!("if {} then\n{}\nelse\n{}", cs, s[0], s[1]), env, hint, k)
    }

    pub fn match_k(&mut self, m: &ExprMatch, env: &Env, hint: Option<&Ty>, k: K) -> R<String> {
        {
            let eff = self.effects_expr(&m.expr);
            if eff.ret || !eff.assigned.is_empty() {
                return self.expr_k(&m.expr, env, None, &|tr, v| {
                    let (env2, rn, cn) = tr.bind_tmp(env, &v);
                    let mut m2 = m.clone();
                    *m2.expr = crate::effects::path_expr_of(&rn);
                    let rest = tr.match_k(&m2, &env2, hint, k)?;
                    Ok(crate::effects::let_pat(&[cn], &v.s, &rest))
                });
            }
        }
        let sc = self.pure(&m.expr, env, None)?;
        if m.arms.iter().any(|a| a.guard.is_some()) {
            return self.guarded_match_k(&sc, &m.arms.iter().collect::<Vec<_>>(), env, hint, k);
        }
        self.plain_match_k(&sc, &m.arms.iter().collect::<Vec<_>>(), None, env, hint, k)
    }

    /// a match without guards; `rest`: translation of the arms that follow (used for `| _ => rest`)
    fn plain_match_k(&mut self, sc: &Val, arms: &[&Arm], rest: Option<&str>, env: &Env, hint: Option<&Ty>, k: K) -> R<String> {
        let mut pats = vec![];
        let mut bodies = vec![];
        for (ai, arm) in arms.iter().enumerate() {
            if matches!(arm.pat, Pat::Wild(_) | Pat::Ident(_)) && (ai + 1 < arms.len() || rest.is_some()) {
                return Err(unsupported(*arm, "a catch-all arm that is not the last arm"));
            }
            if arm.attrs.iter().any(|a| !(a.path().is_ident("allow") || a.path().is_ident("doc") || a.path().is_ident("rustfmt"))) {
                return Err(unsupported(*arm, "attribute on a match arm"));
            }
            let mut env2 = env.clone();
            let mut ps = self.bind_pat(&arm.pat, &sc.ty, &mut env2)?;
            // a top-level or-pattern is written without the surrounding parentheses
            if matches!(arm.pat, Pat::Or(_)) && ps.starts_with('(') && ps.ends_with(')') {
                ps = ps[1..ps.len() - 1].to_string();
            }
            pats.push(ps);
            bodies.push((env2, Body::Expr(&arm.body)));
        }
        let scs = sc.s.clone();
        let rest = rest.map(|r| r.to_string());
        self.branches(
            bodies,
            &|s| {
                let mut out = format!("match {} with\n", scs);
                for (p, b) in pats.iter().zip(s.iter()) {
                    out.push_str(&format!("| {} =>\n{}\n", p, b));
                }
                if let Some(r) = &rest {
                    out.push_str(&format!("| _ =>\n{}\n", r));
                }
                out.push_str("end");
                out
            },
            env,
            hint,
            k,
        )
    }

    /// match with guards: `pat if g => a` is `| pat => if g then a else <the arms that follow>`; the continuation is
    /// duplicated into every arm (the arms that follow appear twice)
    fn guarded_match_k(&mut self, sc: &Val, arms: &[&Arm], env: &Env, hint: Option<&Ty>, k: K) -> R<String> {
        if arms.is_empty() {
            return Err("unsupported construct: match whose last arm has a guard (non-exhaustive for the translator)".into());
        }
        let irrefutable = |p: &Pat| matches!(p, Pat::Wild(_) | Pat::Ident(_));
        if arms[0].guard.is_none() {
            // the maximal guard-free prefix is one ordinary match
            let n = arms.iter().take_while(|a| a.guard.is_none()).count();
            let run = &arms[..n];
            if n == arms.len() || run.iter().any(|a| irrefutable(&a.pat)) {
                let upto = run.iter().position(|a| irrefutable(&a.pat)).map(|i| i + 1).unwrap_or(n);
                return self.plain_match_k(sc, &run[..upto], None, env, hint, k);
            }
            let rest = self.guarded_match_k(sc, &arms[n..], env, hint, k)?;
            // continuation-duplicating strategy: arms are translated with k themselves
            let mut pats = vec![];
            let mut strs = vec![];
            for arm in run.iter() {
                let mut env2 = env.clone();
                let mut ps = self.bind_pat(&arm.pat, &sc.ty, &mut env2)?;
                if matches!(arm.pat, Pat::Or(_)) && ps.starts_with('(') && ps.ends_with(')') {
                    ps = ps[1..ps.len() - 1].to_string();
                }
                pats.push(ps);
                strs.push(self.expr_k(&arm.body, &env2, hint, k)?);
            }
            let mut out = format!("match {} with\n", sc.s);
            for (p, b) in pats.iter().zip(strs.iter()) {
                out.push_str(&format!("| {} =>\n{}\n", p, b));
            }
            out.push_str(&format!("| _ =>\n{}\nend", rest));
            return Ok(out);
        }
        let arm = arms[0];
        let (_, g) = arm.guard.as_ref().unwrap();
        let mut env2 = env.clone();
        let ps = self.bind_pat(&arm.pat, &sc.ty, &mut env2)?;
        let gv = self.pure(g, &env2, Some(&Ty::Bool))?;
        if gv.ty != Ty::Bool {
            return Err(unsupported(&**g, "guard that is not bool"));
        }
        let body = self.expr_k(&arm.body, &env2, hint, k)?;
        let rest = self.guarded_match_k(sc, &arms[1..], env, hint, k)?;
        if irrefutable(&arm.pat) {
            return Ok(format!("let {} := {} in\nif {} then\n{}\nelse\n{}", ps, sc.s, gv.s, body, rest));
        }
        Ok(format!("match {} with\n| {} =>\nif {} then\n{}\nelse\n{}\n| _ =>\n{}\nend", sc.s, ps, gv.s, body, rest, rest))
    }

    /// place expression -> (root variable, field path)
    fn place(&self, e: &Expr) -> R<(String, Vec<Member>)> {
        match e {
            Expr::Path(p) if p.path.segments.len() == 1 => Ok((p.path.segments[0].ident.to_string(), vec![])),
            Expr::Field(f) => {
                let (r, mut p) = self.place(&f.base)?;
                p.push(f.member.clone());
                Ok((r, p))
            }
            Expr::Paren(p) => self.place(&p.expr),
            Expr::Group(p) => self.place(&p.expr),
            Expr::Unary(u) if matches!(u.op, UnOp::Deref(_)) => self.place(&u.expr),
            _ => Err(unsupported(e, "assignment target that is not a local variable or a field path of one")),
        }
    }

    /// functional update of `base` at `path`
    pub fn update(&self, base: &Val, path: &[Member], new: &str, at: &Expr) -> R<String> {
        if path.is_empty() {
            return Ok(new.to_string());
        }
        let fname = match &path[0] {
            Member::Named(i) => i.to_string(),
            Member::Unnamed(i) => i.index.to_string(),
        };
        match &base.ty {
            Ty::Adt(n) => {
                let s = self.t.struct_info(n).ok_or_else(|| unsupported(at, "field assignment on a non-struct"))?;
                if s.ctor == "-" || s.fields.iter().any(|f| f.proj == "-" && !is_phantom(&f.ty)) {
                    return Err(unsupported(at, &format!("field assignment on `{}`, which is only partially mapped", n)));
                }
                if !s.fields.iter().any(|f| f.name == fname) {
                    return Err(unsupported(at, &format!("`{}` has no field `{}`", n, fname)));
                }
                let mut args = vec![];
                for f in s.fields.iter().filter(|f| !is_phantom(&f.ty)) {
                    let cur = Val { s: format!("({} {})", f.proj, base.s), ty: f.ty.clone() };
                    if f.name == fname {
                        args.push(self.update(&cur, &path[1..], new, at)?);
                    } else {
                        args.push(cur.s);
                    }
                }
                Ok(format!("({} {})", s.ctor, args.join(" ")))
            }
            Ty::Tuple(ts) if ts.len() == 2 => {
                let k: usize = fname.parse().map_err(|_| unsupported(at, "tuple field"))?;
                let a = Val { s: format!("(fst {})", base.s), ty: ts[0].clone() };
                let b = Val { s: format!("(snd {})", base.s), ty: ts[1].clone() };
                if k == 0 {
                    Ok(format!("({}, {})", self.update(&a, &path[1..], new, at)?, b.s))
                } else {
                    Ok(format!("({}, {})", a.s, self.update(&b, &path[1..], new, at)?))
                }
            }
            Ty::Tuple(ts) if ts.len() > 2 => {
                // an n-tuple (array): rebuild it with component k updated
                let kk: usize = fname.parse().map_err(|_| unsupported(at, "tuple field"))?;
                if kk >= ts.len() {
                    return Err(unsupported(at, "tuple index out of range"));
                }
                let names: Vec<String> = (0..ts.len()).map(|j| format!("u{}_", j)).collect();
                let cur = Val { s: names[kk].clone(), ty: ts[kk].clone() };
                let upd = self.update(&cur, &path[1..], new, at)?;
                let out: Vec<String> = (0..ts.len()).map(|j| if j == kk { upd.clone() } else { names[j].clone() }).collect();
                Ok(format!("(let '({}) := {} in ({}))", names.join(", "), base.s, out.join(", ")))
            }
            Ty::Range(t) | Ty::RangeIncl(t) if fname == "start" || fname == "end" => {
                let a = Val { s: format!("(fst {})", base.s), ty: (**t).clone() };
                let b = Val { s: format!("(snd {})", base.s), ty: (**t).clone() };
                if fname == "start" {
                    Ok(format!("({}, {})", self.update(&a, &path[1..], new, at)?, b.s))
                } else {
                    Ok(format!("({}, {})", a.s, self.update(&b, &path[1..], new, at)?))
                }
            }
            t => Err(unsupported(at, &format!("field assignment on a value of type {}", t.show()))),
        }
    }

    fn assign_k(&mut self, left: &Expr, op: Option<&BinOp>, right: &Expr, env: &Env, at: &Expr, k: K) -> R<String> {
        if let Expr::Index(ix) = strip_parens(left) {
            // `place[i] = v` on a slice / long array (a list): Rust panics out of range, the list is unchanged here
            if op.is_some() {
                return Err(unsupported(at, "compound assignment to an indexed element"));
            }
            let (root, path) = self.place(&ix.expr)?;
            let base = self.pure(&ix.expr, env, None)?;
            let elem = match &base.ty {
                Ty::Slice(t) => (**t).clone(),
                t => return Err(unsupported(at, &format!("assignment to an element of a value of type {} (only slices / long arrays)", t.show()))),
            };
            let us = Ty::int(IntTy::Usize);
            {
                // the right side is evaluated first (it can itself panic: `a[i] = a[i] & m`)
                let eff = self.effects_expr(right);
                if eff.ret || !eff.assigned.is_empty() {
                    let left2 = left.clone();
                    return self.expr_k(right, env, Some(&elem), &|tr, v| {
                        let (env2, rn, cn) = tr.bind_tmp(env, &v);
                        let rest = tr.assign_k(&left2, None, &crate::effects::path_expr_of(&rn), &env2, at, k)?;
                        Ok(crate::effects::let_pat(&[cn], &v.s, &rest))
                    });
                }
            }
            let r = self.pure(right, env, Some(&elem))?;
            join(&r.ty, &elem).map_err(|m| unsupported(at, &m))?;
            let i = self.pure(&ix.index, env, Some(&us))?;
            join(&i.ty, &us).map_err(|m| unsupported(at, &m))?;
            if !self.partial {
                self.needs_partial = true;
                return Err(unsupported(at, "assignment to a slice element (panics out of range: retry as a partial function)"));
            }
            self.panic_sites.insert("slice index".to_string());
            let newv = format!("(Casts.slice_set {} {} {})", base.s, i.s, r.s);
            let rest = k(self, unit())?;
            let w = self.write_place(&root, &path, env, &newv, &rest, at)?;
            return Ok(format!("if ((0 <=? {i}) && ({i} <? Z.of_nat (length {b}))) then\n{w}\nelse None", i = i.s, b = base.s, w = w));
        }
        let (root, path) = self.place(left)?;
        let var = env.get(&root).cloned().ok_or_else(|| unsupported(at, &format!("assignment to `{}` which is not a local variable", root)))?;
        let cur = self.pure(left, env, None)?;
        if op.is_none() {
            // `place = <call with effects / fuel>`: the value first, then the write
            let eff = self.effects_expr(right);
            if eff.ret || !eff.assigned.is_empty() {
                let cty = cur.ty.clone();
                return self.expr_k(right, env, Some(&cty), &|tr, v| {
                    join(&v.ty, &cty).map_err(|m| unsupported(at, &m))?;
                    let r = k(tr, unit())?;
                    tr.write_place(&root, &path, env, &v.s, &r, at)
                });
            }
        }
        let newv: String = match op {
            None => {
                let r = self.pure(right, env, Some(&cur.ty))?;
                join(&r.ty, &cur.ty).map_err(|m| unsupported(at, &m))?;
                r.s
            }
            Some(op) => match &cur.ty {
                Ty::Adt(n) => {
                    let r0 = self.pure(right, env, None)?;
                    let f = self.find_op_fn(op, n, Some(&r0.ty), at)?;
                    let r = if matches!(r0.ty, Ty::Int(None)) { self.pure(right, env, Some(&f.params[0].1))? } else { r0 };
                    if f.self_kind != SelfKind::Mut || f.ret != Ty::Unit {
                        return Err(unsupported(at, "operator-assign impl that is not `fn(&mut self, rhs)`"));
                    }
                    format!("({} {} {})", f.coq, cur.s, r.s)
                }
                Ty::Int(_) => {
                    // x op= e  is  x = x op e
                    let fake = Expr::Binary(ExprBinary { attrs: vec![], left: Box::new(left.clone()), op: strip_assign(op), right: Box::new(right.clone()) });
                    let v = self.pure(&fake, env, Some(&cur.ty))?;
                    v.s
                }
                Ty::Bool => {
                    let fake = Expr::Binary(ExprBinary { attrs: vec![], left: Box::new(left.clone()), op: strip_assign(op), right: Box::new(right.clone()) });
                    self.pure(&fake, env, Some(&Ty::Bool))?.s
                }
                t => return Err(unsupported(at, &format!("compound assignment on {}", t.show()))),
            },
        };
        let _ = &var;
        let r = k(self, unit())?;
        self.write_place(&root, &path, env, &newv, &r, at)
    }

    fn mut_call_k(&mut self, m: &ExprMethodCall, env: &Env, at: &Expr, k: K) -> R<String> {
        let (root, path) = self.place(&m.receiver)?;
        let var = env.get(&root).cloned().ok_or_else(|| unsupported(at, "receiver is not a local place"))?;
        let recv = self.pure(&m.receiver, env, None)?;
        let n = match &recv.ty {
            Ty::Adt(n) => n.clone(),
            _ => {
                // not a struct receiver: an ordinary (pure) method that happens to share its name
                let v = self.pure(at, env, None)?;
                return k(self, v);
            }
        };
        let name = m.method.to_string();
        let fs = self.find_fns(Some(&n), &name);
        if fs.len() != 1 {
            return Err(unsupported(at, &format!("method `{}::{}`: {}", n, name, if fs.is_empty() { "not a configured function" } else { "ambiguous" })));
        }
        let f = fs[0].clone();
        if f.self_kind != SelfKind::Mut {
            let v = self.pure(at, env, None)?;
            return k(self, v);
        }
        let args: Vec<&Expr> = m.args.iter().collect();
        let (call, _) = self.apply_fn_raw(&f, &[], Some(&recv), &args, env, at)?;
        let base = Val { s: var.coq.clone(), ty: var.ty.clone() };
        if f.ret == Ty::Unit {
            let upd = self.update(&base, &path, &call, at)?;
            let r = k(self, unit())?;
            Ok(let_in(&var.coq, true, &upd, &r))
        } else {
            let tmp = self.fresh("s");
            let rv = self.fresh("r");
            let upd = self.update(&base, &path, &tmp, at)?;
            let r = k(self, Val { s: rv.clone(), ty: f.ret.clone() })?;
            Ok(let_in(&format!("({}, {})", tmp, rv), false, &call, &let_in(&var.coq, true, &upd, &r)))
        }
    }
}

fn strip_assign(op: &BinOp) -> BinOp {
    match op {
        BinOp::AddAssign(_) => BinOp::Add(Default::default()),
        BinOp::SubAssign(_) => BinOp::Sub(Default::default()),
        BinOp::MulAssign(_) => BinOp::Mul(Default::default()),
        BinOp::DivAssign(_) => BinOp::Div(Default::default()),
        BinOp::RemAssign(_) => BinOp::Rem(Default::default()),
        BinOp::BitXorAssign(_) => BinOp::BitXor(Default::default()),
        BinOp::BitAndAssign(_) => BinOp::BitAnd(Default::default()),
        BinOp::BitOrAssign(_) => BinOp::BitOr(Default::default()),
        BinOp::ShlAssign(_) => BinOp::Shl(Default::default()),
        BinOp::ShrAssign(_) => BinOp::Shr(Default::default()),
        o => *o,
    }
}
