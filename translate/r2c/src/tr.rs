//! Expression-level translation of the Rust subset to Gallina (strings).
use crate::types::*;
use std::collections::{BTreeMap, BTreeSet};
use syn::visit::Visit;
use syn::*;

#[derive(Clone, Debug)]
pub struct Var {
    pub coq: String,
    pub ty: Ty,
    /// a `&mut` reference to one of several places of a local, selected by a match (`let r = match side { A => &mut s.x, B => &mut s.y }`)
    pub alias: Option<Alias>,
    /// may be assigned: `let mut`, `mut` parameter, `&mut` parameter, `self` of a `&mut self` / `mut self` method.  Rust demands
    /// `mut` for every by-value local that is written, so a write to a variable that is not `mutable` goes through a
    /// reference binding (`let S { a, b } = self`, default binding modes) - which this translator does not model: fail closed
    pub mutable: bool,
}

#[derive(Clone, Debug)]
pub struct Alias {
    /// the Coq scrutinee and the Coq patterns of the selecting match (a single arm with pattern `_` for a plain `&mut place`)
    pub scrut: String,
    pub arms: Vec<(String, Vec<Member>)>,
    /// the local variable all places are rooted in: its Rust name (for messages), its Coq name and type (the alias keeps
    /// pointing at THIS variable even if the Rust name is shadowed later)
    pub root: String,
    pub root_coq: String,
    pub root_ty: Ty,
}

pub fn var(coq: String, ty: Ty) -> Var {
    Var { coq, ty, alias: None, mutable: false }
}

pub fn var_mut(coq: String, ty: Ty, mutable: bool) -> Var {
    Var { coq, ty, alias: None, mutable }
}

#[derive(Clone, Default, Debug)]
pub struct Env {
    pub vars: Vec<(String, Var)>,
}

impl Env {
    pub fn get(&self, n: &str) -> Option<&Var> {
        self.vars.iter().rev().find(|(k, _)| k == n).map(|(_, v)| v)
    }
    pub fn push(&mut self, n: &str, v: Var) {
        self.vars.push((n.to_string(), v));
    }
}

#[derive(Clone, Debug)]
pub struct Val {
    pub s: String,
    pub ty: Ty,
}

pub fn unit() -> Val {
    Val { s: "tt".into(), ty: Ty::Unit }
}

pub type K<'k> = &'k dyn Fn(&mut Tr, Val) -> R<String>;

pub struct Tr<'a> {
    pub t: &'a Tables,
    pub self_ty: Option<String>,
    pub ret_ty: Ty,
    pub mut_self: bool,
    pub counter: BTreeMap<String, usize>,
    pub mut_methods: BTreeSet<String>,
    pub generic_tys: BTreeSet<String>,
    /// generic parameters fixed by the monomorphic instance this impl is translated for
    pub subst: BTreeMap<String, Ty>,
    /// this function is translated with a leading fuel parameter and an `option` result
    pub fuel: bool,
    /// the result is an `option` (None = panic, or fuel exhausted when `fuel`); implied by `fuel`
    pub partial: bool,
    /// set when a panicking construct / a call of a partial function is met while `partial` is false (retried as partial)
    pub needs_partial: bool,
    /// the body uses an operation whose meaning depends on the width of usize (`checked_*` / `saturating_*` on usize, or calls such a
    /// function): the definition takes the width as the implicit `{U__ : Casts.UsizeW}`
    pub usize_w: std::cell::Cell<bool>,
    /// values of the abstracted items of the callee of a trait-qualified static call (`Trait::<A>::f(..)`): (callee key, values)
    pub assoc_override: std::cell::RefCell<Option<(String, Vec<String>)>>,
    /// the kinds of panic sites translated in this function (`assert!`, `slice index`, `call of f`, ..)
    pub panic_sites: BTreeSet<String>,
    /// names of variables / struct fields of slice (list) type: `name[i]` on them can panic (for the syntactic effect analysis)
    pub slice_names: std::cell::RefCell<BTreeSet<String>>,
    /// set when a loop / a call of a fuelled function is met while `fuel` is false (the caller retries with fuel)
    pub needs_fuel: bool,
    /// the non-fuel pass met `opt.unwrap()`: retried with fuel, where it is an exit with None
    pub unwrap_retry: bool,
    /// the fuel variable in scope
    pub fuel_var: String,
    /// names of fuelled functions (for the syntactic effect analysis)
    pub fuel_names: BTreeSet<String>,
    /// names of functions with `&mut` parameters
    pub mutarg_names: BTreeSet<String>,
    /// Rust names of this function's `&mut` parameters, in order
    pub mut_params: Vec<String>,
    /// Coq type of the function result (without the option of fuelled functions)
    pub ret_coq: String,
    /// enclosing loops: (continue expression, break placeholder)
    pub loops: Vec<(String, String)>,
    /// inside the closure of `core::iter::from_fn(move || ..)`: (recursive call of the generator Fixpoint, flatten?, item type)
    pub gen: Option<(String, bool, std::cell::RefCell<Option<Ty>>)>,
    /// roots assigned anywhere in the function body
    pub fn_assigned: BTreeSet<String>,
    /// the file the translated function is in (tie-break for type names)
    pub cur_file: String,
    /// Coq name of the function being translated, numbering and text of its loop Fixpoints
    pub fn_coq: String,
    pub loop_counter: usize,
    pub aux_defs: Vec<String>,
    /// type arguments of the turbofish of the call being translated (for callees with `assoc_params`)
    pub turbofish_types: Option<Vec<String>>,
    /// monomorphic instance (`inst=P:Type`): configured type -> the trait bounds of the parameter it instantiates; a
    /// method call on a value of that type means the method of one of those traits (never an inherent method)
    pub inst_traits: BTreeMap<String, BTreeSet<String>>,
    /// Coq names of `self` and of the `&mut` parameters (what the function returns as their final values)
    pub self_coq: String,
    pub mut_param_coq: Vec<String>,
}

pub fn lit(n: i128) -> String {
    if n < 0 {
        format!("({})", n)
    } else {
        format!("{}", n)
    }
}

pub fn kind_of(e: &Expr) -> &'static str {
    match e {
        Expr::Array(_) => "array expression",
        Expr::Assign(_) => "assignment",
        Expr::Async(_) => "async block",
        Expr::Await(_) => "await",
        Expr::Binary(_) => "binary operator",
        Expr::Block(_) => "block",
        Expr::Break(_) => "break",
        Expr::Call(_) => "call",
        Expr::Cast(_) => "cast",
        Expr::Closure(_) => "closure",
        Expr::Const(_) => "const block",
        Expr::Continue(_) => "continue",
        Expr::Field(_) => "field access",
        Expr::ForLoop(_) => "for loop",
        Expr::Group(_) => "group",
        Expr::If(_) => "if",
        Expr::Index(_) => "index expression",
        Expr::Infer(_) => "_ expression",
        Expr::Let(_) => "let condition",
        Expr::Lit(_) => "literal",
        Expr::Loop(_) => "loop",
        Expr::Macro(_) => "macro invocation",
        Expr::Match(_) => "match",
        Expr::MethodCall(_) => "method call",
        Expr::Paren(_) => "parenthesis",
        Expr::Path(_) => "path",
        Expr::Range(_) => "range",
        Expr::Reference(_) => "reference",
        Expr::Repeat(_) => "array repeat expression",
        Expr::Return(_) => "return",
        Expr::Struct(_) => "struct literal",
        Expr::Try(_) => "? operator",
        Expr::TryBlock(_) => "try block",
        Expr::Tuple(_) => "tuple",
        Expr::Unary(_) => "unary operator",
        Expr::Unsafe(_) => "unsafe block",
        Expr::Verbatim(_) => "verbatim tokens",
        Expr::While(_) => "while loop",
        Expr::Yield(_) => "yield",
        _ => "unknown expression kind",
    }
}

fn line_of<T: syn::spanned::Spanned>(x: &T) -> usize {
    x.span().start().line
}

pub fn unsupported<T: syn::spanned::Spanned>(x: &T, what: &str) -> String {
    format!("line {}: unsupported construct: {}", line_of(x), what)
}

/// Rust type -> Ty.  `adts`: the configured struct/enum names; `generics`: type parameters in scope.
pub fn conv_ty(t: &Type, adts: &dyn Fn(&str) -> Option<Ty>, generics: &BTreeSet<String>, self_ty: Option<&str>) -> R<Ty> {
    match t {
        Type::Reference(r) => {
            if r.mutability.is_some() {
                return Err(unsupported(t, "`&mut` type"));
            }
            conv_ty(&r.elem, adts, generics, self_ty)
        }
        Type::Slice(sl) => Ok(Ty::Slice(Box::new(conv_ty(&sl.elem, adts, generics, self_ty)?))),
        Type::Paren(p) => conv_ty(&p.elem, adts, generics, self_ty),
        Type::Group(p) => conv_ty(&p.elem, adts, generics, self_ty),
        Type::Tuple(tt) => {
            if tt.elems.is_empty() {
                Ok(Ty::Unit)
            } else {
                Ok(Ty::Tuple(tt.elems.iter().map(|x| conv_ty(x, adts, generics, self_ty)).collect::<R<Vec<_>>>()?))
            }
        }
        Type::ImplTrait(it) => {
            // `impl Iterator<Item = T> + '_` as a RETURN type: the list of the items the iterator yields
            for b in it.bounds.iter() {
                if let TypeParamBound::Trait(tb) = b {
                    if let Some(s) = tb.path.segments.last() {
                        if s.ident == "Iterator" {
                            if let PathArguments::AngleBracketed(a) = &s.arguments {
                                for g in a.args.iter() {
                                    if let GenericArgument::AssocType(at) = g {
                                        if at.ident == "Item" {
                                            return Ok(Ty::Slice(Box::new(conv_ty(&at.ty, adts, generics, self_ty)?)));
                                        }
                                    }
                                }
                            }
                        }
                    }
                }
            }
            Err(unsupported(t, "`impl Trait` type (only `impl Iterator<Item = T>`)"))
        }
        Type::TraitObject(to) => {
            // `dyn Trait` where `Trait` is configured as an `extern` type (its methods are Coq functions of the value)
            for b in to.bounds.iter() {
                if let TypeParamBound::Trait(tb) = b {
                    if let Some(s) = tb.path.segments.last() {
                        if let Some(t) = adts(&s.ident.to_string()) {
                            if matches!(t, Ty::Extern(_)) {
                                return Ok(t);
                            }
                        }
                    }
                }
            }
            Err(unsupported(t, "trait object type (only `dyn Trait` for a trait configured with an `extern` line)"))
        }
        Type::Infer(_) => Ok(Ty::Infer),
        Type::BareFn(f) => {
            let mut a = vec![];
            for i in f.inputs.iter() {
                a.push(conv_ty(&i.ty, adts, generics, self_ty)?);
            }
            let r = match &f.output {
                ReturnType::Default => Ty::Unit,
                ReturnType::Type(_, t) => conv_ty(t, adts, generics, self_ty)?,
            };
            Ok(Ty::Fn(a, Box::new(r)))
        }
        Type::Array(a) => {
            // [T; N] with a literal N is modelled as the N-tuple
            let e = conv_ty(&a.elem, adts, generics, self_ty)?;
            let n = match &a.len {
                Expr::Lit(ExprLit { lit: Lit::Int(i), .. }) => i.base10_parse::<usize>().map_err(|e| e.to_string())?,
                // a length that is not a literal (a const generic, `SIZE * SIZE`): the array is a list, like a slice
                _ => return Ok(Ty::Slice(Box::new(e))),
            };
            if n < 2 || n > 8 {
                return Ok(Ty::Slice(Box::new(e)));
            }
            Ok(Ty::Tuple(vec![e; n]))
        }
        Type::Path(p) if p.qself.is_none() => {
            let seg = p.path.segments.last().unwrap();
            let name = seg.ident.to_string();
            let arg1 = |seg: &PathSegment| -> R<Ty> {
                if let PathArguments::AngleBracketed(a) = &seg.arguments {
                    if a.args.len() == 1 {
                        if let GenericArgument::Type(x) = &a.args[0] {
                            return conv_ty(x, adts, generics, self_ty);
                        }
                    }
                }
                Err(unsupported(t, &format!("generic arguments of `{}`", name)))
            };
            if let Some(i) = IntTy::from_name(&name) {
                return Ok(Ty::Int(Some(i)));
            }
            if name == "Windows" && p.path.segments.len() >= 2 && p.path.segments[p.path.segments.len() - 2].ident == "slice" {
                // core::slice::Windows<'a, T>
                if let PathArguments::AngleBracketed(a) = &seg.arguments {
                    for g in a.args.iter() {
                        if let GenericArgument::Type(x) = g {
                            return Ok(Ty::Windows(Box::new(conv_ty(x, adts, generics, self_ty)?)));
                        }
                    }
                }
                return Err(unsupported(t, "`slice::Windows` without its element type"));
            }
            if name == "str" && p.path.segments.len() == 1 {
                // `&str`: the list of its chars (code points)
                return Ok(Ty::Slice(Box::new(Ty::Int(Some(IntTy::U32)))));
            }
            if name == "char" && p.path.segments.len() == 1 {
                // a `char` is its code point
                return Ok(Ty::Int(Some(IntTy::U32)));
            }
            if p.path.segments.len() == 2 && p.path.segments[0].ident == "Self" && matches!(seg.arguments, PathArguments::None) {
                // `Self::Assoc` where the impl says `type Assoc = <integer type>;`
                if let Some(t) = adts(&format!("Self::{}", name)) {
                    return Ok(t);
                }
            }
            if !matches!(seg.arguments, PathArguments::None) {
                // a configured monomorphic instance of a generic struct (`MajorMinor<i32>`)
                let full: String = quote::ToTokens::to_token_stream(seg).to_string().chars().filter(|c| !c.is_whitespace()).collect();
                if let Some(t) = adts(&full) {
                    return Ok(t);
                }
                // the same with the type arguments reduced to their configured keys, lifetimes dropped
                // (`SubImage<'_, ImageRaw<BinaryColor>>` -> `SubImage<ImageRaw>`)
                if let PathArguments::AngleBracketed(a) = &seg.arguments {
                    let mut keys = vec![];
                    let mut ok = true;
                    for g in a.args.iter() {
                        match g {
                            GenericArgument::Lifetime(_) => {}
                            GenericArgument::Type(x) => match conv_ty(x, adts, generics, self_ty) {
                                Ok(Ty::Adt(k)) => keys.push(k),
                                Ok(Ty::Int(Some(i))) => keys.push(i.name().to_string()),
                                _ => ok = false,
                            },
                            _ => ok = false,
                        }
                    }
                    if ok && !keys.is_empty() {
                        if let Some(t) = adts(&format!("{}<{}>", name, keys.join(","))) {
                            return Ok(t);
                        }
                    }
                }
            }
            if p.path.segments.len() >= 2 && matches!(seg.arguments, PathArguments::None) {
                // `rectangle::Points`: a module-qualified key
                let q = format!("{}.{}", p.path.segments[p.path.segments.len() - 2].ident, name);
                if let Some(t) = adts(&q) {
                    return Ok(t);
                }
            }
            match name.as_str() {
                "bool" => Ok(Ty::Bool),
                "Self" => match self_ty {
                    Some(s) => Ok(adts(s).unwrap_or_else(|| Ty::Adt(s.to_string()))),
                    None => Err(unsupported(t, "`Self` outside an impl")),
                },
                "Option" => Ok(Ty::Option(Box::new(arg1(seg)?))),
                "Result" => {
                    if let PathArguments::AngleBracketed(a) = &seg.arguments {
                        if a.args.len() == 2 {
                            if let (GenericArgument::Type(x), GenericArgument::Type(y)) = (&a.args[0], &a.args[1]) {
                                return Ok(Ty::Result(Box::new(conv_ty(x, adts, generics, self_ty)?), Box::new(conv_ty(y, adts, generics, self_ty)?)));
                            }
                        }
                    }
                    Err(unsupported(t, "generic arguments of `Result`"))
                }
                "Range" => Ok(Ty::Range(Box::new(arg1(seg)?))),
                "RangeInclusive" => Ok(Ty::RangeIncl(Box::new(arg1(seg)?))),
                n if p.path.segments.len() == 1 && generics.contains(n) => Ok(Ty::Param(name)),
                // `I::Item`: an associated type of a generic parameter, a type variable of its own (`tyvar I::Item <coq type>`)
                _ if p.path.segments.len() == 2 && generics.contains(&p.path.segments[0].ident.to_string()) && matches!(seg.arguments, PathArguments::None) => {
                    Ok(Ty::Param(format!("{}::{}", p.path.segments[0].ident, name)))
                }
                n if adts(n).is_some() => Ok(adts(n).unwrap()),
                _ => Err(unsupported(t, &format!("type `{}` (not an integer/bool/Option/tuple/range and not in the configured struct/enum table)", name))),
            }
        }
        Type::Path(_) => {
            // `<X as Trait>::Assoc`: only through a `tymap` line of functions.txt
            let toks: String = quote::ToTokens::to_token_stream(t).to_string().chars().filter(|c| !c.is_whitespace()).collect();
            match adts(&format!("qself:{}", toks)) {
                Some(ty) => Ok(ty),
                None => Err(unsupported(t, &format!("qualified type `{}` (give `tymap {} <configured type>`)", toks, toks))),
            }
        }
        _ => Err(unsupported(t, "type form")),
    }
}

/// which effects an expression has (syntactically; closures and macro arguments are not entered)
#[derive(Default, Clone)]
pub struct Eff {
    pub ret: bool,
    pub assigned: BTreeSet<String>,
}

struct EffVisitor<'m> {
    eff: Eff,
    mut_methods: &'m BTreeSet<String>,
    fuel_names: &'m BTreeSet<String>,
    mutarg_names: &'m BTreeSet<String>,
    /// identifier of the current `Self` type
    self_name: Option<String>,
    unwrap_is_exit: bool,
    /// names of variables / fields of slice (list) type: indexing them can panic
    slice_names: BTreeSet<String>,
}

impl<'m> EffVisitor<'m> {
    /// a call of a function (by name) that has `&mut` parameters: every argument that is a place may be written
    fn mutargs<'x>(&mut self, name: &str, args: impl Iterator<Item = &'x Expr>) {
        if self.mutarg_names.contains(name) {
            for a in args {
                let mut x = a;
                while let Expr::Reference(r) = x {
                    x = &r.expr;
                }
                if let Some(r) = place_root(x) {
                    self.eff.assigned.insert(r);
                }
            }
        }
    }
}

/// `R::load::<O>` -> "R::load::<O>" (the generic arguments are part of the identity of the item)
pub fn generic_item_key(p: &Path) -> String {
    let mut k = p.segments.iter().map(|s| s.ident.to_string()).collect::<Vec<_>>().join("::");
    if let PathArguments::AngleBracketed(a) = &p.segments.last().unwrap().arguments {
        let t: String = quote::ToTokens::to_token_stream(&a.args).to_string().chars().filter(|c| !c.is_whitespace()).collect();
        k.push_str(&format!("::<{}>", t));
    }
    k
}

pub fn place_root(e: &Expr) -> Option<String> {
    match e {
        Expr::Path(p) if p.path.segments.len() == 1 => Some(p.path.segments[0].ident.to_string()),
        Expr::Field(f) => place_root(&f.base),
        Expr::Index(ix) => place_root(&ix.expr),
        Expr::Paren(p) => place_root(&p.expr),
        Expr::Group(p) => place_root(&p.expr),
        Expr::Unary(u) if matches!(u.op, UnOp::Deref(_)) => place_root(&u.expr),
        _ => None,
    }
}

pub fn is_compound(op: &BinOp) -> bool {
    matches!(
        op,
        BinOp::AddAssign(_)
            | BinOp::SubAssign(_)
            | BinOp::MulAssign(_)
            | BinOp::DivAssign(_)
            | BinOp::RemAssign(_)
            | BinOp::BitXorAssign(_)
            | BinOp::BitAndAssign(_)
            | BinOp::BitOrAssign(_)
            | BinOp::ShlAssign(_)
            | BinOp::ShrAssign(_)
    )
}

impl<'ast, 'm> Visit<'ast> for EffVisitor<'m> {
    fn visit_expr_return(&mut self, i: &'ast ExprReturn) {
        self.eff.ret = true;
        visit::visit_expr_return(self, i);
    }
    fn visit_expr_try(&mut self, i: &'ast ExprTry) {
        self.eff.ret = true;
        visit::visit_expr_try(self, i);
    }
    fn visit_expr_assign(&mut self, i: &'ast ExprAssign) {
        self.eff.assigned.insert(place_root(&i.left).unwrap_or_else(|| "<complex place>".into()));
        visit::visit_expr_assign(self, i);
    }
    fn visit_expr_binary(&mut self, i: &'ast ExprBinary) {
        if is_compound(&i.op) {
            self.eff.assigned.insert(place_root(&i.left).unwrap_or_else(|| "<complex place>".into()));
        }
        visit::visit_expr_binary(self, i);
    }
    fn visit_expr_method_call(&mut self, i: &'ast ExprMethodCall) {
        let n = i.method.to_string();
        if self.mut_methods.contains(&n) || (n == "next" && i.args.is_empty()) || n == "get_mut" {
            match place_root(&i.receiver) {
                Some(r) => {
                    self.eff.assigned.insert(r);
                }
                // a `&mut self` method on a temporary (a call result): still a call that has to be sequenced
                None if self.mut_methods.contains(&n) && matches!(&*i.receiver, Expr::Call(_) | Expr::MethodCall(_)) => {
                    self.eff.assigned.insert("<temporary>".into());
                }
                None => {}
            }
        }
        if ((n == "unwrap" && i.args.is_empty()) || (n == "expect" && i.args.len() == 1)) && !matches!(&*i.receiver, Expr::MethodCall(r) if r.method == "try_into") {
            // in a fuelled function `opt.unwrap()` leaves the function with None (no value) when opt is None
            self.eff.ret = true;
        }
        if n == "copy_from_slice" && i.args.len() == 1 {
            // on a list (`list[a..b].copy_from_slice(..)`): panics when the lengths differ / the range is outside: control flow
            // (on a local array with literal bounds the lengths are checked at translation time)
            if let Expr::Index(ix) = &*i.receiver {
                let name = match &*ix.expr {
                    Expr::Path(p) => p.path.get_ident().map(|x| x.to_string()),
                    Expr::Field(f) => match &f.member {
                        Member::Named(n) => Some(n.to_string()),
                        _ => None,
                    },
                    _ => None,
                };
                if name.map_or(false, |n| self.slice_names.contains(&n)) {
                    self.eff.ret = true;
                }
            }
        }
        if n == "for_each" && i.args.len() == 1 {
            // `place.iter_mut().for_each(|v| ..)` writes the place
            if let Expr::MethodCall(r) = &*i.receiver {
                if r.method == "iter_mut" {
                    self.eff.assigned.insert(place_root(&r.receiver).unwrap_or_else(|| "<complex place>".into()));
                }
            }
        }
        if n == "zip" && i.args.len() == 1 {
            // may drive an iterator value to a list (fuel): sequenced like a call
            self.eff.ret = true;
        }
        if n == "inspect" {
            // `opt.inspect(|_| { statements })` runs the statements
            for a in i.args.iter() {
                if let Expr::Closure(c) = a {
                    self.visit_expr(&c.body);
                }
            }
        }
        if n == "copy_from_slice" {
            // `x[a..b].copy_from_slice(..)` / `x.copy_from_slice(..)` write x
            let mut r: &Expr = &i.receiver;
            while let Expr::Index(ix) = r {
                r = &ix.expr;
            }
            self.eff.assigned.insert(place_root(r).unwrap_or_else(|| "<complex place>".into()));
        }
        if self.fuel_names.contains(&n) || (n == "last" && i.args.is_empty()) || (n == "fold" && i.args.len() == 2 && matches!(&i.args[1], Expr::Closure(c) if c.inputs.len() == 2)) {
            self.eff.ret = true;
        }
        self.mutargs(&n, i.args.iter());
        visit::visit_expr_method_call(self, i);
    }
    fn visit_expr_call(&mut self, i: &'ast ExprCall) {
        if let Expr::Path(p) = &*i.func {
            if let Some(s) = p.path.segments.last() {
                let n = s.ident.to_string();
                let segs: Vec<String> = p.path.segments.iter().map(|x| x.ident.to_string()).collect();
                let hit = if segs.len() >= 2 && segs[segs.len() - 2] != "Self" {
                    // `Type::name`: only a fuelled function of that type
                    self.fuel_names.contains(&format!("{}::{}", segs[segs.len() - 2], n))
                } else if segs.len() >= 2 && self.self_name.is_some() {
                    self.fuel_names.contains(&format!("{}::{}", self.self_name.as_ref().unwrap(), n))
                } else {
                    self.fuel_names.contains(&n)
                };
                // `Trait::<A>::name(..)` resolved to the impl of the current Self type (trait-qualified static call)
                let via_trait = segs.len() >= 2 && segs[segs.len() - 2] != "Self" && self.self_name.is_some();
                let hit = hit || (via_trait && self.fuel_names.contains(&format!("{}::{}", self.self_name.as_ref().unwrap(), n)) && segs[segs.len() - 2].chars().next().map_or(false, |c| c.is_uppercase()) && matches!(p.path.segments[segs.len() - 2].arguments, PathArguments::AngleBracketed(_)));
                if hit {
                    self.eff.ret = true;
                }
                if via_trait && matches!(p.path.segments[segs.len() - 2].arguments, PathArguments::AngleBracketed(_)) {
                    let k2 = format!("{}::{}", self.self_name.as_ref().unwrap(), n);
                    self.mutargs(&k2, i.args.iter());
                }
                let key = if segs.len() >= 2 && segs[segs.len() - 2] != "Self" {
                    format!("{}::{}", segs[segs.len() - 2], n)
                } else if segs.len() >= 2 && self.self_name.is_some() {
                    format!("{}::{}", self.self_name.as_ref().unwrap(), n)
                } else {
                    n.clone()
                };
                self.mutargs(&key, i.args.iter());
            }
        }
        visit::visit_expr_call(self, i);
    }
    fn visit_expr_index(&mut self, i: &'ast ExprIndex) {
        // `list[i]` panics out of range: control flow (the function is partial)
        if !matches!(&*i.index, Expr::Range(_)) {
            let name = match &*i.expr {
                Expr::Path(p) => p.path.get_ident().map(|x| x.to_string()),
                Expr::Field(f) => match &f.member {
                    Member::Named(n) => Some(n.to_string()),
                    _ => None,
                },
                _ => None,
            };
            if let Some(n) = name {
                if self.slice_names.contains(&n) {
                    self.eff.ret = true;
                }
            }
        }
        visit::visit_expr_index(self, i);
    }
    fn visit_expr_reference(&mut self, i: &'ast ExprReference) {
        if i.mutability.is_some() {
            self.eff.assigned.insert(place_root(&i.expr).unwrap_or_else(|| "<complex place>".into()));
        }
        visit::visit_expr_reference(self, i);
    }
    fn visit_expr_loop(&mut self, i: &'ast ExprLoop) {
        self.eff.ret = true;
        visit::visit_expr_loop(self, i);
    }
    fn visit_expr_while(&mut self, i: &'ast ExprWhile) {
        self.eff.ret = true;
        visit::visit_expr_while(self, i);
    }
    fn visit_expr_break(&mut self, _i: &'ast ExprBreak) {
        self.eff.ret = true;
    }
    fn visit_expr_continue(&mut self, _i: &'ast ExprContinue) {
        self.eff.ret = true;
    }
    fn visit_macro(&mut self, m: &'ast Macro) {
        let n = m.path.segments.last().map(|s| s.ident.to_string()).unwrap_or_default();
        if n == "panic" || n == "unreachable" || n == "unimplemented" || n == "todo" || n == "assert" || n == "assert_eq" || n == "assert_ne" {
            self.eff.ret = true;
        }
    }
    fn visit_expr_closure(&mut self, i: &'ast ExprClosure) {
        // closures are translated as pure functions; the only writes looked for inside are the mutable sub-slice chains
        struct G<'e>(&'e mut BTreeSet<String>);
        impl<'ast, 'e> Visit<'ast> for G<'e> {
            fn visit_expr_method_call(&mut self, m: &'ast ExprMethodCall) {
                if m.method == "get_mut" {
                    if let Some(r) = place_root(&m.receiver) {
                        self.0.insert(r);
                    }
                }
                visit::visit_expr_method_call(self, m);
            }
        }
        G(&mut self.eff.assigned).visit_expr_closure(i);
    }
    fn visit_item(&mut self, _i: &'ast Item) {}
}

pub enum Body<'b> {
    Stmts(&'b [Stmt]),
    Expr(&'b Expr),
    Empty,
}

impl<'a> Tr<'a> {
    pub fn ty(&self, t: &Type) -> R<Ty> {
        let tabs = self.t;
        let r = conv_ty(t, &|n| tabs.resolve_name(n, &self.cur_file, self.self_ty.as_deref()), &self.generic_tys, self.self_ty.as_deref())?;
        Ok(subst_ty(&r, &self.subst))
    }

    pub fn fresh(&mut self, name: &str) -> String {
        let c = self.counter.entry(name.to_string()).or_insert(0);
        let s = if *c == 0 { format!("{}'", name) } else { format!("{}'{}", name, *c) };
        *c += 1;
        s
    }

    pub fn effects_expr(&self, e: &Expr) -> Eff {
        let mut v = EffVisitor { eff: Eff::default(), mut_methods: &self.mut_methods, fuel_names: &self.fuel_names, mutarg_names: &self.mutarg_names, self_name: self.self_ty.as_deref().map(|s| s.rsplit('.').next().unwrap().split('<').next().unwrap().to_string()), unwrap_is_exit: self.fuel, slice_names: self.slice_names.borrow().clone() };
        v.visit_expr(e);
        v.eff
    }
    pub fn effects_stmts(&self, s: &[Stmt]) -> Eff {
        let mut v = EffVisitor { eff: Eff::default(), mut_methods: &self.mut_methods, fuel_names: &self.fuel_names, mutarg_names: &self.mutarg_names, self_name: self.self_ty.as_deref().map(|s| s.rsplit('.').next().unwrap().split('<').next().unwrap().to_string()), unwrap_is_exit: self.fuel, slice_names: self.slice_names.borrow().clone() };
        for x in s {
            v.visit_stmt(x);
        }
        v.eff
    }
    fn effects_body(&self, b: &Body) -> Eff {
        match b {
            Body::Stmts(s) => self.effects_stmts(s),
            Body::Expr(e) => self.effects_expr(e),
            Body::Empty => Eff::default(),
        }
    }

    // ------------------------------------------------------------------ patterns
    /// translate a pattern against a value of type `ty`; binds variables in `env`
    pub fn bind_pat(&mut self, p: &Pat, ty: &Ty, env: &mut Env) -> R<String> {
        match p {
            Pat::Wild(_) => Ok("_".into()),
            Pat::Paren(q) => self.bind_pat(&q.pat, ty, env),
            Pat::Reference(q) => self.bind_pat(&q.pat, ty, env),
            Pat::Type(q) => {
                let a = self.ty(&q.ty)?;
                let t = join(ty, &a).map_err(|m| unsupported(p, &m))?;
                self.bind_pat(&q.pat, &t, env)
            }
            Pat::Ident(i) => {
                if i.subpat.is_some() {
                    return Err(unsupported(p, "`name @ pattern`"));
                }
                let n = i.ident.to_string();
                if n == "None" {
                    return Ok("None".into());
                }
                if i.by_ref.is_some() {
                    return Err(unsupported(p, "`ref` / `ref mut` binding (reference bindings are not modelled)"));
                }
                // an identifier pattern that names a const / unit struct / glob-imported variant is NOT a binder in Rust
                if n.chars().next().map(|c| c.is_uppercase()).unwrap_or(false)
                    || self.t.consts.iter().any(|c| c.key == n || c.key.ends_with(&format!("::{}", n)))
                    || self.t.file_defs.get(&self.cur_file).map(|d| d.consts.contains(&n)).unwrap_or(false)
                {
                    return Err(unsupported(p, &format!("identifier pattern `{}` that may name a constant or an enum variant (write the path, e.g. `Enum::{}`)", n, n)));
                }
                let c = self.fresh(&n);
                if matches!(ty, Ty::Slice(_)) {
                    self.slice_names.borrow_mut().insert(n.clone());
                }
                env.push(&n, var_mut(c.clone(), ty.clone(), i.mutability.is_some()));
                Ok(c)
            }
            Pat::Tuple(t) => {
                let tys = match ty {
                    Ty::Tuple(ts) if ts.len() == t.elems.len() => ts.clone(),
                    Ty::Infer => vec![Ty::Infer; t.elems.len()],
                    _ => return Err(unsupported(p, &format!("tuple pattern against a value of type {}", ty.show()))),
                };
                let mut parts = vec![];
                for (q, qt) in t.elems.iter().zip(tys.iter()) {
                    parts.push(self.bind_pat(q, qt, env)?);
                }
                Ok(format!("({})", parts.join(", ")))
            }
            Pat::Slice(t) if matches!(ty, Ty::Slice(_)) => {
                // `[a, b]` against a slice: the list of exactly these elements
                let et = match ty {
                    Ty::Slice(x) => (**x).clone(),
                    _ => unreachable!(),
                };
                let mut parts = vec![];
                for q in t.elems.iter() {
                    if matches!(q, Pat::Rest(_)) {
                        return Err(unsupported(p, "`..` in a slice pattern"));
                    }
                    parts.push(self.bind_pat(q, &et, env)?);
                }
                Ok(format!("[{}]", parts.join("; ")))
            }
            Pat::Slice(t) => {
                let tys = match ty {
                    Ty::Tuple(ts) if ts.len() == t.elems.len() => ts.clone(),
                    _ => return Err(unsupported(p, &format!("slice pattern against a value of type {}", ty.show()))),
                };
                let mut parts = vec![];
                for (q, qt) in t.elems.iter().zip(tys.iter()) {
                    if matches!(q, Pat::Rest(_)) {
                        return Err(unsupported(p, "`..` in a slice pattern"));
                    }
                    parts.push(self.bind_pat(q, qt, env)?);
                }
                Ok(format!("({})", parts.join(", ")))
            }
            Pat::Lit(l) => match &l.lit {
                Lit::Int(i) => Ok(lit(i.base10_parse::<i128>().map_err(|e| e.to_string())?)),
                Lit::Bool(b) => Ok(if b.value { "true".into() } else { "false".into() }),
                Lit::Char(c) => Ok(lit(c.value() as i128)),
                _ => Err(unsupported(p, "literal pattern that is not an integer, char or bool")),
            },
            Pat::Or(o) => {
                // every alternative must bind the same variables; they get the same Coq names
                let saved = self.counter.clone();
                let mut parts = vec![];
                let mut first: Option<Env> = None;
                for c in o.cases.iter() {
                    self.counter = saved.clone();
                    let mut e2 = env.clone();
                    parts.push(self.bind_pat(c, ty, &mut e2)?);
                    match &first {
                        None => first = Some(e2),
                        Some(f) => {
                            let a: Vec<(&String, &String)> = f.vars.iter().map(|(n, v)| (n, &v.coq)).collect();
                            let b: Vec<(&String, &String)> = e2.vars.iter().map(|(n, v)| (n, &v.coq)).collect();
                            if a != b {
                                return Err(unsupported(p, "or-pattern whose alternatives bind different variables"));
                            }
                        }
                    }
                }
                // the counter now reflects one alternative's bindings
                *env = first.unwrap();
                Ok(format!("({})", parts.join(" | ")))
            }
            Pat::Path(pp) => self.path_pattern(&pp.path, ty, p),
            Pat::TupleStruct(ts) => {
                let segs: Vec<String> = ts.path.segments.iter().map(|s| s.ident.to_string()).collect();
                if segs.len() == 1 && segs[0] == "Some" {
                    let inner = match ty {
                        Ty::Option(t) => (**t).clone(),
                        Ty::Infer => Ty::Infer,
                        _ => return Err(unsupported(p, &format!("`Some(..)` pattern against {}", ty.show()))),
                    };
                    if ts.elems.len() != 1 {
                        return Err(unsupported(p, "Some with several fields"));
                    }
                    let q = self.bind_pat(&ts.elems[0], &inner, env)?;
                    return Ok(format!("(Some {})", q));
                }
                if segs.len() == 1 && (segs[0] == "Ok" || segs[0] == "Err") && ts.elems.len() == 1 {
                    let inner = match ty {
                        Ty::Result(a, b) => if segs[0] == "Ok" { (**a).clone() } else { (**b).clone() },
                        _ => return Err(unsupported(p, &format!("`{}(..)` pattern against {}", segs[0], ty.show()))),
                    };
                    let q = self.bind_pat(&ts.elems[0], &inner, env)?;
                    return Ok(format!("({} {})", if segs[0] == "Ok" { "inl" } else { "inr" }, q));
                }
                let (ctor, ftys) = self.variant_or_struct(&ts.path, ty, p)?;
                if ftys.len() != ts.elems.len() {
                    return Err(unsupported(p, "pattern with a different number of fields than the definition (`..` is not supported here)"));
                }
                let mut parts = vec![];
                for (q, (_, qt)) in ts.elems.iter().zip(ftys.iter()) {
                    parts.push(self.bind_pat(q, qt, env)?);
                }
                Ok(format!("({} {})", ctor, parts.join(" ")))
            }
            Pat::Struct(ps) => {
                let (ctor, ftys) = self.variant_or_struct(&ps.path, ty, p)?;
                let mut parts = vec![];
                for (fname, fty) in ftys.iter() {
                    let fname = fname.clone().ok_or_else(|| unsupported(p, "struct pattern on a tuple variant"))?;
                    match ps.fields.iter().find(|f| matches!(&f.member, Member::Named(i) if *i == fname)) {
                        Some(f) => parts.push(self.bind_pat(&f.pat, fty, env)?),
                        None => {
                            if ps.rest.is_none() {
                                return Err(unsupported(p, &format!("field `{}` missing in pattern", fname)));
                            }
                            parts.push("_".into())
                        }
                    }
                }
                for f in ps.fields.iter() {
                    let ok = matches!(&f.member, Member::Named(i) if ftys.iter().any(|(n, _)| n.as_deref() == Some(&i.to_string())));
                    if !ok {
                        return Err(unsupported(p, "unknown field in struct pattern"));
                    }
                }
                Ok(format!("({} {})", ctor, parts.join(" ")))
            }
            _ => Err(unsupported(p, "pattern form")),
        }
    }

    pub fn resolve_type_name(&self, n: &str) -> String {
        if n == "Self" {
            self.self_ty.clone().unwrap_or_else(|| n.to_string())
        } else {
            match self.t.resolve_name(n, &self.cur_file, self.self_ty.as_deref()) {
                Some(Ty::Adt(k)) => k,
                _ => n.to_string(),
            }
        }
    }

    fn path_pattern(&mut self, path: &Path, ty: &Ty, p: &Pat) -> R<String> {
        let (ctor, ftys) = self.variant_or_struct(path, ty, p)?;
        if !ftys.is_empty() {
            return Err(unsupported(p, "path pattern naming a variant with fields"));
        }
        Ok(ctor)
    }

    /// `Enum::Variant` / `Self::Variant` / `Struct` -> constructor and field list
    pub fn variant_or_struct<T: syn::spanned::Spanned>(&self, path: &Path, ty: &Ty, at: &T) -> R<(String, Vec<(Option<String>, Ty)>)> {
        let segs: Vec<String> = path.segments.iter().map(|s| s.ident.to_string()).collect();
        if segs.len() == 2 {
            let en = self.resolve_type_name(&segs[0]);
            if let Some(e) = self.t.enum_info(&en) {
                if let Some(v) = e.variants.iter().find(|v| v.name == segs[1]) {
                    if let Ty::Adt(n) = ty {
                        if *n != en {
                            return Err(unsupported(at, &format!("variant of `{}` used where `{}` is expected", en, n)));
                        }
                    }
                    return Ok((v.ctor.clone(), v.fields.clone()));
                }
                return Err(unsupported(at, &format!("`{}` has no variant `{}`", en, segs[1])));
            }
        }
        if segs.len() == 1 {
            let sn = self.resolve_type_name(&segs[0]);
            if let Some(s) = self.t.struct_info(&sn) {
                if s.ctor == "-" {
                    return Err(unsupported(at, &format!("`{}` has no constructor in the configured mapping", sn)));
                }
                return Ok((s.ctor.clone(), s.fields.iter().filter(|f| !is_phantom(&f.ty)).map(|f| (Some(f.name.clone()), f.ty.clone())).collect()));
            }
        }
        Err(unsupported(at, &format!("path `{}` is neither a configured enum variant nor a configured struct", segs.join("::"))))
    }
}
