//! Types of the translated Rust subset and the tables built from the configuration.
use std::collections::{BTreeMap, BTreeSet};

pub type R<T> = Result<T, String>;

#[derive(Clone, Copy, PartialEq, Eq, Debug, Hash, PartialOrd, Ord)]
pub enum IntTy {
    U8,
    U16,
    U32,
    U64,
    Usize,
    I8,
    I16,
    I32,
    I64,
    Isize,
}

impl IntTy {
    pub fn from_name(s: &str) -> Option<IntTy> {
        Some(match s {
            "u8" => IntTy::U8,
            "u16" => IntTy::U16,
            "u32" => IntTy::U32,
            "u64" => IntTy::U64,
            "usize" => IntTy::Usize,
            "i8" => IntTy::I8,
            "i16" => IntTy::I16,
            "i32" => IntTy::I32,
            "i64" => IntTy::I64,
            "isize" => IntTy::Isize,
            _ => return None,
        })
    }
    pub fn name(self) -> &'static str {
        match self {
            IntTy::U8 => "u8",
            IntTy::U16 => "u16",
            IntTy::U32 => "u32",
            IntTy::U64 => "u64",
            IntTy::Usize => "usize",
            IntTy::I8 => "i8",
            IntTy::I16 => "i16",
            IntTy::I32 => "i32",
            IntTy::I64 => "i64",
            IntTy::Isize => "isize",
        }
    }
    pub fn signed(self) -> bool {
        matches!(self, IntTy::I8 | IntTy::I16 | IntTy::I32 | IntTy::I64 | IntTy::Isize)
    }
    /// usize/isize are 64 bit (the host the harness runs on); see coq/Base/Casts.v
    pub fn bits(self) -> u32 {
        match self {
            IntTy::U8 | IntTy::I8 => 8,
            IntTy::U16 | IntTy::I16 => 16,
            IntTy::U32 | IntTy::I32 => 32,
            IntTy::U64 | IntTy::I64 | IntTy::Usize | IntTy::Isize => 64,
        }
    }
    pub fn min_val(self) -> i128 {
        if self.signed() {
            -(1i128 << (self.bits() - 1))
        } else {
            0
        }
    }
    pub fn max_val(self) -> i128 {
        if self.signed() {
            (1i128 << (self.bits() - 1)) - 1
        } else {
            (1i128 << self.bits()) - 1
        }
    }
    pub fn unsigned_counterpart(self) -> IntTy {
        match self {
            IntTy::I8 => IntTy::U8,
            IntTy::I16 => IntTy::U16,
            IntTy::I32 => IntTy::U32,
            IntTy::I64 => IntTy::U64,
            IntTy::Isize => IntTy::Usize,
            t => t,
        }
    }
    /// every value of `self` is a value of `to`
    pub fn widens_to(self, to: IntTy) -> bool {
        self.min_val() >= to.min_val() && self.max_val() <= to.max_val()
    }
}

#[derive(Clone, PartialEq, Eq, Debug)]
pub enum Ty {
    /// `None` = an unsuffixed literal whose type is not known yet
    Int(Option<IntTy>),
    Bool,
    Unit,
    /// a struct or enum of the ADT table
    Adt(String),
    Option(Box<Ty>),
    Tuple(Vec<Ty>),
    /// `a..b`, modelled as the pair (a, b)
    Range(Box<Ty>),
    /// `a..=b`, modelled as the pair (a, b)
    RangeIncl(Box<Ty>),
    /// a generic type parameter, mapped to a Coq type by a `tyvar` line
    Param(String),
    /// not known yet (`None` without context); joins with everything
    Infer,
    /// a struct field whose type is outside the subset (slices, PhantomData, ...): only an error when used
    Opaque(String),
    /// a local closure bound by `let`
    Fn(Vec<Ty>, Box<Ty>),
    /// `&[T]` / `&mut [T]`, modelled as a list
    Slice(Box<Ty>),
    /// `core::slice::Windows<'_, T>` of `s.windows(3)`: the part of the slice not yet passed (a list)
    Windows(Box<Ty>),
    /// `s.chars()` / an element iterator over a list: the part not yet passed (a list)
    Iter(Box<Ty>),
    /// `Result<T, E>`, modelled as the sum `T + E`
    Result(Box<Ty>, Box<Ty>),
    /// a type of the `extern` table: an opaque Coq type with whitelisted accessor methods
    Extern(String),
}

impl Ty {
    pub fn int(t: IntTy) -> Ty {
        Ty::Int(Some(t))
    }
    pub fn show(&self) -> String {
        match self {
            Ty::Int(Some(t)) => t.name().to_string(),
            Ty::Int(None) => "{integer}".into(),
            Ty::Bool => "bool".into(),
            Ty::Unit => "()".into(),
            Ty::Adt(n) => n.clone(),
            Ty::Option(t) => format!("Option<{}>", t.show()),
            Ty::Tuple(ts) => format!("({})", ts.iter().map(|t| t.show()).collect::<Vec<_>>().join(", ")),
            Ty::Range(t) => format!("Range<{}>", t.show()),
            Ty::RangeIncl(t) => format!("RangeInclusive<{}>", t.show()),
            Ty::Param(p) => p.clone(),
            Ty::Infer => "_".into(),
            Ty::Opaque(w) => format!("<unsupported type: {}>", w),
            Ty::Extern(n) => n.clone(),
            Ty::Slice(t) => format!("[{}]", t.show()),
            Ty::Windows(t) => format!("Windows<{}>", t.show()),
            Ty::Iter(t) => format!("Iter<{}>", t.show()),
            Ty::Result(t, e) => format!("Result<{}, {}>", t.show(), e.show()),
            Ty::Fn(a, r) => format!("fn({}) -> {}", a.iter().map(|t| t.show()).collect::<Vec<_>>().join(", "), r.show()),
        }
    }
    pub fn is_int(&self) -> bool {
        matches!(self, Ty::Int(_))
    }
}

/// least upper bound of two types that must be equal up to unsuffixed literals
pub fn join(a: &Ty, b: &Ty) -> R<Ty> {
    Ok(match (a, b) {
        (Ty::Infer, x) | (x, Ty::Infer) => x.clone(),
        (Ty::Int(None), Ty::Int(x)) | (Ty::Int(x), Ty::Int(None)) => Ty::Int(*x),
        (Ty::Int(Some(x)), Ty::Int(Some(y))) if x == y => a.clone(),
        (Ty::Bool, Ty::Bool) | (Ty::Unit, Ty::Unit) => a.clone(),
        (Ty::Adt(x), Ty::Adt(y)) if x == y => a.clone(),
        (Ty::Param(x), Ty::Param(y)) if x == y => a.clone(),
        (Ty::Extern(x), Ty::Extern(y)) if x == y => a.clone(),
        (Ty::Option(x), Ty::Option(y)) => Ty::Option(Box::new(join(x, y)?)),
        (Ty::Slice(x), Ty::Slice(y)) => Ty::Slice(Box::new(join(x, y)?)),
        (Ty::Windows(x), Ty::Windows(y)) => Ty::Windows(Box::new(join(x, y)?)),
        (Ty::Iter(x), Ty::Iter(y)) => Ty::Iter(Box::new(join(x, y)?)),
        (Ty::Result(x, e), Ty::Result(y, f)) => Ty::Result(Box::new(join(x, y)?), Box::new(join(e, f)?)),
        (Ty::Range(x), Ty::Range(y)) => Ty::Range(Box::new(join(x, y)?)),
        (Ty::RangeIncl(x), Ty::RangeIncl(y)) => Ty::RangeIncl(Box::new(join(x, y)?)),
        (Ty::Tuple(x), Ty::Tuple(y)) if x.len() == y.len() => {
            Ty::Tuple(x.iter().zip(y).map(|(p, q)| join(p, q)).collect::<R<Vec<_>>>()?)
        }
        _ => return Err(format!("type mismatch: {} vs {}", a.show(), b.show())),
    })
}

#[derive(Clone, Debug)]
pub struct FieldInfo {
    pub name: String,
    pub ty: Ty,
    pub proj: String,
}

#[derive(Clone, Debug)]
pub struct StructInfo {
    pub name: String,
    pub coq_ty: String,
    pub ctor: String,
    pub fields: Vec<FieldInfo>,
    pub eqb: Option<String>,
    /// the Record is emitted into the Gen file (no model record given in the configuration)
    pub generated: bool,
    pub module: String,
    pub origin: String,
}

#[derive(Clone, Debug)]
pub struct VariantInfo {
    pub name: String,
    pub ctor: String,
    /// field name (None for tuple variants) and type
    pub fields: Vec<(Option<String>, Ty)>,
}

#[derive(Clone, Debug)]
pub struct EnumInfo {
    pub name: String,
    pub coq_ty: String,
    pub variants: Vec<VariantInfo>,
    pub eqb: Option<String>,
    pub generated: bool,
    pub module: String,
    pub origin: String,
}

#[derive(Clone, Debug)]
pub enum Adt {
    Struct(StructInfo),
    Enum(EnumInfo),
}

#[derive(Clone, Copy, PartialEq, Eq, Debug)]
pub enum SelfKind {
    None,
    Value,
    Ref,
    Mut,
}

#[derive(Clone, Debug)]
pub struct FnInfo {
    /// `Type::name`, `Type::Trait<Arg>::name` or `name`
    pub key: String,
    pub name: String,
    pub coq: String,
    pub self_ty: Option<String>,
    pub trait_name: Option<String>,
    pub self_kind: SelfKind,
    pub const_generics: Vec<(String, Ty)>,
    /// associated constants of generic type parameters used in the body (`R::BITS_PER_PIXEL`): abstracted
    /// as leading parameters of the generated definition
    pub assoc_params: Vec<(String, Ty)>,
    pub params: Vec<(String, Ty)>,
    /// parallel to `params`: the parameter is `&mut T` (its final value is part of the result)
    pub mut_params: Vec<bool>,
    /// macro parameters the definition depends on (leading arguments)
    pub mvars: Vec<String>,
    /// type parameters of the function, in order (to map a turbofish onto `assoc_params`)
    pub generic_names: Vec<String>,
    /// the generic arguments of the impl's self type, as written (`RawDataIterator<'_, R, O>` -> ["'_", "R", "O"])
    pub impl_args: Vec<String>,
    /// the (virtual) file of the definition
    pub file: String,
    pub ret: Ty,
    /// the body contains a loop (or calls a function that does): leading `fuel : nat` parameter, result in `option`
    pub fuel: bool,
    /// the body can panic (`panic!`, `assert!`, `unwrap`, slice index, a call of such a function): result in `option`, None = panic
    /// (no fuel parameter; for a fuelled function None means fuel exhausted or a panic)
    pub partial: bool,
    /// the definition is parametric in the width of usize (implicit `{U__ : Casts.UsizeW}`)
    pub usize_w: bool,
    /// the panic sites of the translated body (a fuelled function with panic sites: None = fuel exhausted OR a panic)
    pub panic_sites: Vec<String>,
}

/// the marker type of a `PhantomData<..>` field
pub fn is_phantom(t: &Ty) -> bool {
    matches!(t, Ty::Opaque(s) if s == "PhantomData")
}

impl FnInfo {
    /// the generated definition returns an `option`
    pub fn opt(&self) -> bool {
        self.fuel || self.partial
    }
    pub fn has_mut_params(&self) -> bool {
        self.mut_params.iter().any(|b| *b)
    }
    /// the components of the value the generated definition returns: new self, final values of `&mut` parameters, result
    pub fn result_tys(&self) -> Vec<Ty> {
        let mut v = vec![];
        if self.self_kind == SelfKind::Mut {
            v.push(Ty::Adt(self.self_ty.clone().unwrap()));
        }
        for ((_, t), m) in self.params.iter().zip(self.mut_params.iter()) {
            if *m {
                v.push(t.clone());
            }
        }
        if self.ret != Ty::Unit {
            v.push(self.ret.clone());
        }
        v
    }
}

#[derive(Clone, Debug)]
pub struct ConstInfo {
    /// `Type::NAME` or `NAME`
    pub key: String,
    pub coq: String,
    pub ty: Ty,
    /// macro parameters the definition depends on (leading arguments)
    pub mvars: Vec<String>,
    pub file: String,
}

/// a `$name` parameter of a macro_rules! arm translated as a template: the generated definitions that mention it
/// (directly or through another definition of the template) take it as a leading argument
#[derive(Clone, Debug)]
pub struct MVar {
    pub name: String,
    pub ty: Ty,
    /// Coq type of the binder when it is not a value of the subset (the table row of an abstract type)
    pub coq_ty: Option<String>,
}

#[derive(Clone, Debug)]
pub struct ExternInfo {
    pub name: String,
    pub coq_ty: String,
    /// method name -> (return type, Coq function applied to the receiver)
    pub methods: Vec<(String, Ty, String)>,
    /// argument types of the methods that take arguments (`name(t1,t2):ret:coqfn`)
    pub margs: BTreeMap<String, Vec<Ty>>,
    /// for an abstract type of a macro template: the macro parameter (a table row) every member is applied to first
    pub row: Option<String>,
    /// associated constants: name -> (type, Coq function)
    pub consts: Vec<(String, Ty, String)>,
    /// associated functions: name -> (argument types, return type, Coq function)
    pub statics: Vec<(String, Vec<Ty>, Ty, String)>,
}

/// what a source file defines itself (to detect that a bare name in it cannot mean a configured item of another file)
#[derive(Default, Clone, Debug)]
pub struct FileDefs {
    pub fns: BTreeSet<String>,
    pub consts: BTreeSet<String>,
    pub types: BTreeSet<String>,
    /// inherent methods: (type identifier, method)
    pub inherent: BTreeSet<(String, String)>,
    /// `type Name = <ident>;` in the impls of a type: (type identifier, Name) -> the identifier (an integer type or a
    /// generic parameter); None = several different ones / not a plain identifier
    pub assoc_types: BTreeMap<(String, String), Option<String>>,
}

#[derive(Default)]
pub struct Tables {
    pub file_defs: BTreeMap<String, FileDefs>,
    pub externs: BTreeMap<String, ExternInfo>,
    /// macro parameters in declaration order
    pub mvars: Vec<MVar>,
    /// `fuel <fn key> <coq nat>`: calls of this fuelled function pass this constant (the model's bound) instead of the caller's fuel
    pub fuel_consts: BTreeMap<String, String>,
    /// type of an associated constant of a generic type parameter, by constant name
    pub assoc_tys: BTreeMap<String, Ty>,
    /// `assoc <name> fnmut(..)->..`: the method takes `&mut self`; its Coq type is `A -> args -> (A * ret)`
    pub assoc_mut: BTreeSet<String>,
    /// `tymap <tokens of a qualified type> <configured type key>`
    pub tymap: BTreeMap<String, String>,
    pub adts: BTreeMap<String, Adt>,
    pub fns: Vec<FnInfo>,
    pub consts: Vec<ConstInfo>,
    pub tyvars: BTreeMap<String, String>,
}

impl Tables {
    /// a default inhabitant (the value of `s[i]` in the out-of-range case, where Rust panics)
    pub fn default_of(&self, t: &Ty) -> Option<String> {
        Some(match t {
            Ty::Int(_) => "0".into(),
            Ty::Bool => "false".into(),
            Ty::Unit => "tt".into(),
            Ty::Option(_) => "None".into(),
            Ty::Slice(_) | Ty::Windows(_) | Ty::Iter(_) => "[]".into(),
            Ty::Tuple(ts) => format!("({})", ts.iter().map(|x| self.default_of(x)).collect::<Option<Vec<_>>>()?.join(", ")),
            Ty::Range(x) | Ty::RangeIncl(x) => format!("({d}, {d})", d = self.default_of(x)?),
            Ty::Adt(n) => match self.adts.get(n)? {
                Adt::Struct(s) => {
                    if s.ctor == "-" {
                        return None;
                    }
                    if s.ctor.is_empty() {
                        // newtype
                        return self.default_of(&s.fields.first()?.ty);
                    }
                    let mut a = vec![];
                    for f in s.fields.iter().filter(|f| !is_phantom(&f.ty)) {
                        a.push(self.default_of(&f.ty)?);
                    }
                    if a.is_empty() { s.ctor.clone() } else { format!("({} {})", s.ctor, a.join(" ")) }
                }
                Adt::Enum(e) => e.variants.iter().find(|v| v.fields.is_empty())?.ctor.clone(),
            },
            Ty::Param(p) if self.tyvars.get(p).map(|c| c == "Z").unwrap_or(false) => "0".into(),
            _ => return None,
        })
    }

    pub fn coq_ty(&self, t: &Ty) -> R<String> {
        Ok(match t {
            Ty::Int(_) => "Z".into(),
            Ty::Bool => "bool".into(),
            Ty::Unit => "unit".into(),
            Ty::Adt(n) => match self.adts.get(n) {
                Some(Adt::Struct(s)) => s.coq_ty.clone(),
                Some(Adt::Enum(e)) => e.coq_ty.clone(),
                None => return Err(format!("type `{}` is not in the configured struct/enum table", n)),
            },
            Ty::Option(t) => format!("(option {})", self.coq_ty(t)?),
            Ty::Tuple(ts) => {
                if ts.is_empty() {
                    "unit".into()
                } else {
                    format!("({})", ts.iter().map(|t| self.coq_ty(t)).collect::<R<Vec<_>>>()?.join(" * "))
                }
            }
            Ty::Range(t) | Ty::RangeIncl(t) => format!("({} * {})", self.coq_ty(t)?, self.coq_ty(t)?),
            Ty::Infer => "_".into(),
            Ty::Opaque(w) => return Err(format!("unsupported type: {}", w)),
            Ty::Slice(t) | Ty::Windows(t) | Ty::Iter(t) => format!("(list {})", self.coq_ty(t)?),
            Ty::Result(t, e) => format!("({} + {})", self.coq_ty(t)?, self.coq_ty(e)?),
            Ty::Fn(a, r) => format!("({} -> {})", a.iter().map(|t| self.coq_ty(t)).collect::<R<Vec<_>>>()?.join(" -> "), self.coq_ty(r)?),
            Ty::Extern(n) => match self.externs.get(n) {
                Some(e) => e.coq_ty.clone(),
                None => return Err(format!("extern type `{}` unknown", n)),
            },
            Ty::Param(p) => match self.tyvars.get(p) {
                Some(c) => c.clone(),
                None => return Err(format!("generic type parameter `{}` has no `tyvar` mapping", p)),
            },
        })
    }
    /// the table entry a type name written in `cur_file` refers to.  Keys may carry a module qualifier
    /// (`rectangle.Points`, `line.Points`) when two Rust types share an identifier.
    fn origin_file(&self, key: &str) -> String {
        match self.adts.get(key) {
            Some(Adt::Struct(s)) => s.origin.rsplit_once(':').map(|x| x.0.to_string()).unwrap_or_default(),
            Some(Adt::Enum(e)) => e.origin.rsplit_once(':').map(|x| x.0.to_string()).unwrap_or_default(),
            None => String::new(),
        }
    }

    /// the file defines a type of this name itself, but the configured one comes from another file: not the same type
    pub fn shadowed_type(&self, key: &str, cur_file: &str) -> bool {
        let base = key.rsplit('.').next().unwrap().split('<').next().unwrap();
        match self.file_defs.get(cur_file) {
            Some(d) if d.types.contains(base) => {
                let o = self.origin_file(key);
                !o.is_empty() && o != cur_file && !o.contains("core::")
            }
            _ => false,
        }
    }

    pub fn resolve_name(&self, name: &str, cur_file: &str, self_ty: Option<&str>) -> Option<Ty> {
        let r = self.resolve_name0(name, cur_file, self_ty);
        if let Some(Ty::Adt(k)) = &r {
            if self.shadowed_type(k, cur_file) {
                return None;
            }
        }
        r
    }

    /// `Self::Name` where the impls of the self type in this file say `type Name = <integer type>;`
    pub fn assoc_int(&self, cur_file: &str, self_ty: Option<&str>, name: &str) -> Option<IntTy> {
        match self.assoc_ty(cur_file, self_ty, name) {
            Some(Ty::Int(Some(t))) => Some(t),
            _ => None,
        }
    }

    /// .. or `type Name = T;` for a generic parameter T that has a `tyvar` mapping
    pub fn assoc_ty(&self, cur_file: &str, self_ty: Option<&str>, name: &str) -> Option<Ty> {
        let base = self_ty?.rsplit('.').next().unwrap().split('<').next().unwrap().to_string();
        match self.file_defs.get(cur_file)?.assoc_types.get(&(base, name.to_string())) {
            Some(Some(t)) => match IntTy::from_name(t) {
                Some(i) => Some(Ty::Int(Some(i))),
                None if self.tyvars.contains_key(t) => Some(Ty::Param(t.clone())),
                None => None,
            },
            _ => None,
        }
    }

    fn resolve_name0(&self, name: &str, cur_file: &str, self_ty: Option<&str>) -> Option<Ty> {
        if let Some(q) = name.strip_prefix("qself:") {
            let k = self.tymap.get(q)?;
            return self.resolve_name0(k, cur_file, self_ty);
        }
        if let Some(a) = name.strip_prefix("Self::") {
            return self.assoc_ty(cur_file, self_ty, a);
        }
        if self.adts.contains_key(name) {
            return Some(Ty::Adt(name.to_string()));
        }
        if !name.contains('.') {
            // a configured type DEFINED in the current file (under a module-qualified key) comes before a global abstract type
            // (`mtype` / `extern`) of the same name
            let sfx = format!(".{}", name);
            let here: Vec<&String> = self
                .adts
                .iter()
                .filter(|(k, a)| {
                    k.ends_with(&sfx) && {
                        let origin = match a {
                            Adt::Struct(s) => s.origin.clone(),
                            Adt::Enum(e) => e.origin.clone(),
                        };
                        origin.split(':').next().unwrap() == cur_file
                    }
                })
                .map(|(k, _)| k)
                .collect();
            if here.len() == 1 && self.externs.contains_key(name) {
                return Some(Ty::Adt(here[0].clone()));
            }
        }
        if self.externs.contains_key(name) {
            return Some(Ty::Extern(name.to_string()));
        }
        let suffix = format!(".{}", name.rsplit('.').next().unwrap());
        if let Some(st) = self_ty {
            if st.ends_with(&suffix) && self.adts.contains_key(st) {
                return Some(Ty::Adt(st.to_string()));
            }
        }
        if name.contains('.') {
            return None;
        }
        let cands: Vec<&String> = self.adts.keys().filter(|k| k.ends_with(&suffix)).collect();
        if cands.len() == 1 {
            return Some(Ty::Adt(cands[0].clone()));
        }
        let dir = |f: &str| f.rsplit_once('/').map(|x| x.0.to_string()).unwrap_or_default();
        let here = dir(cur_file);
        let same: Vec<&&String> = cands
            .iter()
            .filter(|k| {
                let origin = match &self.adts[**k] {
                    Adt::Struct(s) => s.origin.clone(),
                    Adt::Enum(e) => e.origin.clone(),
                };
                dir(origin.split(':').next().unwrap()) == here
            })
            .collect();
        if same.len() == 1 {
            return Some(Ty::Adt((**same[0]).clone()));
        }
        None
    }
    pub fn struct_info(&self, n: &str) -> Option<&StructInfo> {
        match self.adts.get(n) {
            Some(Adt::Struct(s)) => Some(s),
            _ => None,
        }
    }
    pub fn enum_info(&self, n: &str) -> Option<&EnumInfo> {
        match self.adts.get(n) {
            Some(Adt::Enum(e)) => Some(e),
            _ => None,
        }
    }
}

/// replace generic type parameters by the types of a monomorphic instance (`MajorMinor<i32>`: T := i32)
pub fn subst_ty(t: &Ty, m: &BTreeMap<String, Ty>) -> Ty {
    match t {
        Ty::Param(p) => match m.get(p) {
            Some(x) => x.clone(),
            None => {
                // `G::Assoc` where G is renamed to another type variable
                if let Some((g, rest)) = p.split_once("::") {
                    if let Some(Ty::Param(q)) = m.get(g) {
                        return Ty::Param(format!("{}::{}", q, rest));
                    }
                }
                t.clone()
            }
        },
        Ty::Option(x) => Ty::Option(Box::new(subst_ty(x, m))),
        Ty::Range(x) => Ty::Range(Box::new(subst_ty(x, m))),
        Ty::RangeIncl(x) => Ty::RangeIncl(Box::new(subst_ty(x, m))),
        Ty::Tuple(xs) => Ty::Tuple(xs.iter().map(|x| subst_ty(x, m)).collect()),
        Ty::Fn(a, r) => Ty::Fn(a.iter().map(|x| subst_ty(x, m)).collect(), Box::new(subst_ty(r, m))),
        Ty::Slice(x) => Ty::Slice(Box::new(subst_ty(x, m))),
        Ty::Windows(x) => Ty::Windows(Box::new(subst_ty(x, m))),
        Ty::Iter(x) => Ty::Iter(Box::new(subst_ty(x, m))),
        Ty::Result(x, e) => Ty::Result(Box::new(subst_ty(x, m)), Box::new(subst_ty(e, m))),
        _ => t.clone(),
    }
}

/// a Coq identifier from a Rust type name (`MajorMinor<i32>` -> `MajorMinor_i32`)
pub fn sanitize(s: &str) -> String {
    let mut out = String::new();
    for c in s.chars() {
        if c.is_alphanumeric() || c == '_' {
            out.push(c);
        } else if !out.ends_with('_') {
            out.push('_');
        }
    }
    while out.ends_with('_') {
        out.pop();
    }
    out
}
