//cfg: fn @ div_i32
//cfg: fn @ rem_i32
//cfg: fn @ div_u32
//cfg: fn @ rem_u32
//cfg: fn @ div_i8
//cfg: fn @ divlit
//cfg: fn @ neglit
//cfg: fn @ cast_then_div
//cfg: fn @ div_then_cast
//cfg: fn @ cast_chain_div
//cfg: fn @ u_as_i_div
//grid: div_i32({a},{b}) ||| src_div_i32 {a} {b} ||| a=-7,-1,0,1,7,-2147483648,2147483647; b=-2,2,3,-1,-3
//grid: rem_i32({a},{b}) ||| src_rem_i32 {a} {b} ||| a=-7,-1,0,1,7,-2147483648,2147483647; b=-2,2,3,-1,-3
//grid: div_u32({a},{b}) ||| src_div_u32 {a} {b} ||| a=0,1,7,4294967295; b=2,3,4294967295
//grid: rem_u32({a},{b}) ||| src_rem_u32 {a} {b} ||| a=0,1,7,4294967295; b=2,3,4294967295
//grid: div_i8({a},{b}) ||| src_div_i8 {a} {b} ||| a=-128,-7,7,127; b=-1,-2,3
//grid: divlit({a}) ||| src_divlit {a} ||| a=-7,-1,0,7
//grid: neglit({a}) ||| src_neglit {a} ||| a=-7,-1,0,7
//grid: cast_then_div({a},{b}) ||| src_cast_then_div {a} {b} ||| a=0,7,4294967289,2147483648; b=-2,2,3
//grid: div_then_cast({a}) ||| src_div_then_cast {a} ||| a=0,7,4294967289,2147483648
//grid: cast_chain_div({a}) ||| src_cast_chain_div {a} ||| a=-7,-1,0,7,-2147483648
//grid: u_as_i_div({a},{b}) ||| src_u_as_i_div {a} {b} ||| a=-7,-1,0,7; b=1,2,3,4294967295
pub fn div_i32(a: i32, b: i32) -> i32 { a / b }
pub fn rem_i32(a: i32, b: i32) -> i32 { a % b }
pub fn div_u32(a: u32, b: u32) -> u32 { a / b }
pub fn rem_u32(a: u32, b: u32) -> u32 { a % b }
pub fn div_i8(a: i8, b: i8) -> i8 { a / b }
pub fn divlit(a: i32) -> i32 { a / 2 + a % 3 + 7 / 2 * a }
pub fn neglit(a: i32) -> i32 { a + -1 % 3 + -7 / 2 - -a }
pub fn cast_then_div(a: u32, b: i32) -> i32 { a as i32 / b }
pub fn div_then_cast(a: u32) -> i32 { (a / 2) as i32 }
pub fn cast_chain_div(a: i32) -> u32 { a as u32 / 2 + (a as u32 % 3) }
pub fn u_as_i_div(a: i32, b: u32) -> i32 { a / b as i32 + (a as u32 / b) as i32 }
