//cfg: fn @ m1
//cfg: fn @ m2
//cfg: fn @ m3
//cfg: fn @ m4
//cfg: fn @ m5
//cfg: fn @ m6
//cfg: fn @ m7
//cfg: fn @ m8
//cfg: fn @ m9
//grid: m1({a},{b}) ||| src_m1 {a} {b} ||| a=-7,-1,0,7,-2147483648,2147483647; b=-3,0,5,2147483647
//grid: m2({a}) ||| src_m2 {a} ||| a=-7,-1,0,7,-2147483648,2147483647
//grid: m3({a}) ||| src_m3 {a} ||| a=-7,-1,0,7,-2147483648,2147483647
//grid: m4({a},{b}) ||| src_m4 {a} {b} ||| a=-7,-1,0,7; b=0,1,2,3
//grid: m5({a}) ||| src_m5 {a} ||| a=-7,-1,0,7
//grid: m6({a},{b}) ||| src_m6 {a} {b} ||| a=-7,-1,0,7; b=-5,-2,2,5
//grid: m7({a},{b}) ||| src_m7 {a} {b} ||| a=-7,-1,0,7; b=-5,-2,2,5
//grid: m8({a},{b}) ||| src_m8 {a} {b} ||| a=0,1,7,4294967295; b=0,2,5,4294967295
//grid: m9({a}) ||| src_m9 {a} ||| a=-7,-1,0,7,-2147483648
pub fn m1(a: i32, b: i32) -> u32 { a.abs_diff(b) / 2 }
pub fn m2(a: i32) -> u32 { a.unsigned_abs() / 3 + a.unsigned_abs() % 3 }
pub fn m3(a: i32) -> i32 { a.abs() / 3 + (-a.abs()) / 3 + (-a.abs() % 3) }
pub fn m4(a: i32, b: u32) -> i32 { a.pow(b) / 3 - a.pow(2) }
pub fn m5(a: i32) -> i32 { a.signum() / 2 + -a.signum() }
pub fn m6(a: i32, b: i32) -> i32 { a.min(b) / 2 + core::cmp::max(a, b) % 5 + a.max(b).min(3) }
pub fn m7(a: i32, b: i32) -> i32 { a.rem_euclid(b) * 100 + a.div_euclid(b) }
pub fn m8(a: u32, b: u32) -> u32 { a.abs_diff(b) / 2 + a.min(b) % 7 }
pub fn m9(a: i32) -> i32 { -a.pow(2) + (-a).pow(2) - -a * 2 }
