//cfg: fn @ s1
//cfg: fn @ s2
//cfg: fn @ s3
//cfg: fn @ s4
//cfg: fn @ s5
//cfg: fn @ s6
//cfg: fn @ s7
//cfg: fn @ s8
//cfg: fn @ s9
//grid: s1({a},{b}) ||| src_s1 {a} {b} ||| a=-2147483648,-7,0,7,2147483647; b=-2147483648,-3,0,5,2147483647
//grid: s2({a},{b}) ||| src_s2 {a} {b} ||| a=0,7,4294967295; b=0,5,8,4294967295
//grid: s3({a},{b}) ||| src_s3 {a} {b} ||| a=-128,-7,0,7,127; b=-128,-3,0,5,127
//grid: s4({a},{b}) ||| src_s4 {a} {b} ||| a=0,7,255; b=0,5,8,255
//grid: s5({a},{b}) ||| src_s5 {a} {b} ||| a=-2147483648,-7,0,7,2147483647; b=-2147483648,-3,0,5,2147483647
//grid: s6({a},{b}) ||| src_s6 {a} {b} ||| a=0,7,4294967295; b=0,5,8,4294967295
//grid: s7({a},{b}) ||| src_s7 {a} {b} ||| a=-2147483648,-7,0,7,2147483647; b=-2147483648,-3,0,5,2147483647
//grid: s8({a},{b}) ||| src_s8 {a} {b} ||| a=0,7,4294967295; b=0,5,8,4294967295
//grid: s9({a},{b}) ||| src_s9 {a} {b} ||| a=-32768,-7,0,7,32767; b=-32768,-3,0,5,32767
pub fn s1(a: i32, b: i32) -> (i32, i32, i32) { (a.saturating_sub(b), a.saturating_add(b), a.saturating_mul(b)) }
pub fn s2(a: u32, b: u32) -> (u32, u32, u32) { (a.saturating_sub(b), a.saturating_add(b), a.saturating_mul(b)) }
pub fn s3(a: i8, b: i8) -> (i8, i8, i8) { (a.saturating_sub(b), a.saturating_add(b), a.saturating_mul(b)) }
pub fn s4(a: u8, b: u8) -> (u8, u8, u8) { (a.saturating_sub(b), a.saturating_add(b), a.saturating_mul(b)) }
pub fn s5(a: i32, b: i32) -> (Option<i32>, Option<i32>, Option<i32>) { (a.checked_sub(b), a.checked_add(b), a.checked_mul(b)) }
pub fn s6(a: u32, b: u32) -> (Option<u32>, Option<u32>, Option<u32>) { (a.checked_sub(b), a.checked_add(b), a.checked_mul(b)) }
pub fn s7(a: i32, b: i32) -> (i32, i32, i32) { (a.wrapping_sub(b), a.wrapping_add(b), a.wrapping_mul(b)) }
pub fn s8(a: u32, b: u32) -> (u32, u32, u32) { (a.wrapping_sub(b), a.wrapping_add(b), a.wrapping_mul(b)) }
pub fn s9(a: i16, b: i16) -> (i16, Option<i16>, i16) { (a.wrapping_sub(b), a.checked_mul(b), a.saturating_sub(b)) }
