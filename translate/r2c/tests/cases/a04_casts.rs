//cfg: fn @ c1
//cfg: fn @ c2
//cfg: fn @ c3
//cfg: fn @ c4
//cfg: fn @ c5
//cfg: fn @ c6
//cfg: fn @ c7
//cfg: fn @ c8
//cfg: fn @ c9
//cfg: fn @ c10
//grid: c1({a}) ||| src_c1 {a} ||| a=-2147483648,-7,-1,0,7,2147483647
//grid: c2({a}) ||| src_c2 {a} ||| a=0,7,2147483647,2147483648,4294967295
//grid: c3({a}) ||| src_c3 {a} ||| a=0,7,4294967295,4294967296,18446744073709551615,9223372036854775808
//grid: c4({a}) ||| src_c4 {a} ||| a=true,false
//grid: c5({a}) ||| src_c5 {a} ||| a=0,7,127,128,255
//grid: c6({a}) ||| src_c6 {a} ||| a=-128,-1,0,127
//grid: c7({a}) ||| src_c7 {a} ||| a=-9223372036854775808,-2147483649,-1,0,2147483648,9223372036854775807
//grid: c8({a}) ||| src_c8 {a} ||| a=-2147483648,-300,-1,0,255,256,2147483647
//grid: c9({a}) ||| src_c9 {a} ||| a=-2147483648,-300,-1,0,255,256,2147483647
//grid: c10({a}) ||| src_c10 {a} ||| a=-32768,-1,0,32767
pub fn c1(a: i32) -> (u32, u64, i64, usize, u8, i8, u16, i16, isize) { (a as u32, a as u64, a as i64, a as usize, a as u8, a as i8, a as u16, a as i16, a as isize) }
pub fn c2(a: u32) -> (i32, u64, i64, usize, u8, i8, u16, i16, isize) { (a as i32, a as u64, a as i64, a as usize, a as u8, a as i8, a as u16, a as i16, a as isize) }
pub fn c3(a: u64) -> (u32, i32, i64, u8, i8, usize, isize) { (a as u32, a as i32, a as i64, a as u8, a as i8, a as usize, a as isize) }
pub fn c4(a: bool) -> (i32, u8, u32, i64) { (a as i32, a as u8, a as u32 + 1, a as i64) }
pub fn c5(a: u8) -> (i8, i32, u32, i16, i64) { (a as i8, a as i32, a as u32, a as i8 as i16, a as i8 as i64) }
pub fn c6(a: i8) -> (u8, u32, i32, u64, u16) { (a as u8, a as u32, a as i32, a as u64, a as u8 as u16) }
pub fn c7(a: i64) -> (i32, u32, u64, u8, i8) { (a as i32, a as u32, a as u64, a as u8, a as i8) }
pub fn c8(a: i32) -> i32 { (a as u8) as i8 as i32 + (a as i8 as u8 as i32) }
pub fn c9(a: i32) -> u32 { (a as u32 >> 28) + ((a >> 28) as u32 & 15) + (a as u8 as u32) }
pub fn c10(a: i16) -> (u16, i32, u32, i8, u64) { (a as u16, a as i32, a as u32, a as i8, a as u64) }
