//cfg: fn @ b1
//cfg: fn @ b2
//cfg: fn @ b3
//cfg: fn @ b4
//cfg: fn @ b5
//cfg: fn @ b6
//cfg: fn @ b7
//cfg: fn @ b8
//grid: b1({a},{b}) ||| src_b1 {a} {b} ||| a=-2147483648,-7,-1,0,7,2147483647; b=0,1,4,31,32
//grid: b2({a},{b}) ||| src_b2 {a} {b} ||| a=0,7,2147483648,4294967295; b=0,1,4,31,32
//grid: b3({a},{b}) ||| src_b3 {a} {b} ||| a=-2147483648,-7,-1,0,7,1073741824,2147483647; b=0,1,4,31
//grid: b4({a},{b}) ||| src_b4 {a} {b} ||| a=0,7,15,16,255; b=0,1,4,7
//grid: b5({a}) ||| src_b5 {a} ||| a=0,7,255
//grid: b6({a}) ||| src_b6 {a} ||| a=-2147483648,-7,-1,0,7,2147483647
//grid: b7({a},{b}) ||| src_b7 {a} {b} ||| a=-7,-1,0,7,12; b=-6,-1,0,5,10
//grid: b8({a},{b}) ||| src_b8 {a} {b} ||| a=0,1,5,31; b=0,1,3
pub fn b1(a: i32, b: u32) -> i32 { a >> b }
pub fn b2(a: u32, b: u32) -> u32 { a >> b }
pub fn b3(a: i32, b: u32) -> i32 { a << b }
pub fn b4(a: u8, b: u32) -> u8 { a << b }
pub fn b5(a: u8) -> (u8, u32, u32) { (!a, !(a as u32), !0u32 - a as u32) }
pub fn b6(a: i32) -> (i32, i32) { (!a, !a >> 3) }
pub fn b7(a: i32, b: i32) -> (i32, i32, i32, i32) { (a & b, a | b, a ^ b, a | b & a ^ b) }
pub fn b8(a: u32, b: u32) -> u32 { 1 << a + b | 1u32 << b }
