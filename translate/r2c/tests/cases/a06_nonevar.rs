//cfg: fn @ n1
//grid: n1({a}) ||| src_n1 {a} ||| a=0,1,5
pub fn n1(a: u32) -> (i32, i32) { let n = 3000000000; let y: u32 = n + a; (n as i32, y as i32) }
