//cfg: fn @ n2
//grid: n2({a}) ||| src_n2 {a} ||| a=0,1,5
pub fn takes_u8(x: u8) -> u8 { x }
pub fn n2(a: u8) -> i32 { let n = 200; let y: u8 = a.wrapping_add(n); (n as i8) as i32 + y as i32 }
