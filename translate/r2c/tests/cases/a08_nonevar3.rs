//cfg: fn @ n3
//grid: n3({a}) ||| src_n3 {a} ||| a=-7,0,7
pub fn n3(a: i64) -> i32 { let n = 5_000_000_000; let y: i64 = a + n; (n as i32) + (y as i32) }
