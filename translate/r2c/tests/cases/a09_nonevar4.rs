//cfg: fn @ n4
//grid: n4({a}) ||| src_n4 {a} ||| a=-7,0,7
pub fn n4(a: i32) -> i32 { let k = 2; let m = -7; a / k + m / k + m % k }
