//cfg: const @ K
//cfg: const @ M
//cfg: const @ S
//cfg: const @ NEG
//cfg: fn @ g1
//cfg: fn @ g2
//cfg: fn @ g3
//cfg: fn @ g4
//grid: g1::<{{n}}>({a}) ||| src_g1 {n} {a} ||| a=-7,-1,0,7; n=-2,3
//grid: g2::<{{n}}>({a}) ||| src_g2 {n} {a} ||| a=0,7,4294967295; n=2,3
//grid: g3({a}) ||| src_g3 {a} ||| a=-7,0,7
//grid: g4({a}) ||| src_g4 {a} ||| a=-7,0,7
pub const K: i32 = -7 / 2;
pub const M: u32 = !0;
pub const S: i32 = 1 << 4;
pub const NEG: i32 = -7 % 3;
pub fn g1<const N: i32>(a: i32) -> i32 { a / N + a % N }
pub fn g2<const N: u32>(a: u32) -> u32 { a / N + a % N }
pub fn g3(a: i32) -> i32 { a / K + S + NEG + (M as i32) }
pub fn g4(a: i32) -> i32 { const L: i32 = -9 / 2; let x: i32 = -7 / 2; a + L + x + i32::MIN / 3 + (u32::MAX / 2) as i32 + (i32::BITS as i32) }
