//cfg: fn @ f1
//cfg: fn @ f2
//cfg: fn @ f3
//grid: f1({a},{b}) ||| src_f1 {a} {b} ||| a=0,7,255; b=true,false
//grid: f2({a}) ||| src_f2 {a} ||| a=-128,-7,0,127
//grid: f3({a}) ||| src_f3 {a} ||| a=0,7,65535
pub fn f1(a: u8, b: bool) -> i32 { i32::from(a) / 2 - i32::from(b) + (u32::from(a) / 3) as i32 }
pub fn f2(a: i8) -> i32 { let x: i32 = a.into(); let y: i64 = a.into(); x / 2 + (y / 2) as i32 }
pub fn f3(a: u16) -> i64 { let x: u32 = a.into(); let y: i64 = x.into(); -y / 2 }
