//cfg: struct @ Ctr
//cfg: fn @ Ctr::bump
//cfg: fn @ Ctr::t1
//cfg: fn @ Ctr::t2
//cfg: fn @ Ctr::t3
//cfg: fn @ Ctr::t5
//cfg: fn @ Ctr::t8
//cfg: fn @ sub
//cfg: fn @ Ctr::t10
//cfg: fn @ Ctr::t12
//cfg: fn @ Ctr::t13
//grid: {let mut c = Ctr{n:{a}, m:{b}}; let r = c.t1(); (c.n, c.m, r)} ||| let '(c, r) := src_Ctr_t1 (Build_Ctr {a} {b}) in (Ctr_n c, Ctr_m c, r) ||| a=-3,0,5; b=2
//grid: {let mut c = Ctr{n:{a}, m:{b}}; let r = c.t2(); (c.n, c.m, r)} ||| let '(c, r) := src_Ctr_t2 (Build_Ctr {a} {b}) in (Ctr_n c, Ctr_m c, r) ||| a=-3,0,5; b=2
//grid: {let mut c = Ctr{n:{a}, m:{b}}; let r = c.t3(); (c.n, c.m, r)} ||| let '(c, r) := src_Ctr_t3 (Build_Ctr {a} {b}) in (Ctr_n c, Ctr_m c, r) ||| a=-3,0,5; b=2
//grid: {let mut c = Ctr{n:{a}, m:{b}}; let r = c.t5(); (c.n, c.m, r)} ||| let '(c, r) := src_Ctr_t5 (Build_Ctr {a} {b}) in (Ctr_n c, Ctr_m c, r) ||| a=-3,0,5; b=2
//grid: {let mut c = Ctr{n:{a}, m:{b}}; let r = c.t8(); (c.n, c.m, r)} ||| let '(c, r) := src_Ctr_t8 (Build_Ctr {a} {b}) in (Ctr_n c, Ctr_m c, r) ||| a=-3,0,5; b=2
//grid: {let mut c = Ctr{n:{a}, m:{b}}; let r = c.t10(); (c.n, c.m, r)} ||| let '(c, r) := src_Ctr_t10 (Build_Ctr {a} {b}) in (Ctr_n c, Ctr_m c, r) ||| a=-3,0,5; b=2
//grid: {let mut c = Ctr{n:{a}, m:{b}}; let r = c.t12(); (c.n, c.m, r)} ||| let '(c, r) := src_Ctr_t12 (Build_Ctr {a} {b}) in (Ctr_n c, Ctr_m c, r) ||| a=-3,0,5; b=2
//grid: {let mut c = Ctr{n:{a}, m:{b}}; let r = c.t13(); (c.n, c.m, r)} ||| let '(c, r) := src_Ctr_t13 (Build_Ctr {a} {b}) in (Ctr_n c, Ctr_m c, r) ||| a=-3,0,5; b=2
#[derive(Clone, Copy, Debug)]
pub struct Ctr { pub n: i32, pub m: i32 }
pub fn sub(a: i32, b: i32) -> i32 { a - b }
impl Ctr {
    pub fn bump(&mut self) -> i32 { self.n += 1; self.m *= 2; self.n }
    pub fn t1(&mut self) -> i32 { self.n * 100 + self.bump() }
    pub fn t2(&mut self) -> i32 { self.bump() * 100 + self.n }
    pub fn t3(&mut self) -> i32 { self.bump() * 100 - self.bump() }
    pub fn t5(&mut self) -> i32 { if self.bump() > 1 && self.n > 3 { self.m } else { -self.m } }
    pub fn t8(&mut self) -> (i32, i32, i32) { let t = (self.bump(), self.n, self.bump()); t }
    pub fn t10(&mut self) -> i32 { sub(self.bump(), self.bump()) + sub(self.m, self.bump()) }
    pub fn t12(&mut self) -> i32 { let x = self.m + { self.bump() } * 10; x }
    pub fn t13(&mut self) -> i32 { match self.bump() { 1 => self.m, k => k + self.bump() } }
}
