//cfg: struct @ Ctr
//cfg: fn @ Ctr::bump
//cfg: fn @ Ctr::t4
//grid: {let mut c = Ctr{n:{a}, m:{b}}; let r = c.t4(); (c.n, c.m, r)} ||| let '(c, r) := src_Ctr_t4 (Build_Ctr {a} {b}) in (Ctr_n c, Ctr_m c, r) ||| a=-3,0,5; b=2
#[derive(Clone, Copy, Debug)]
pub struct Ctr { pub n: i32, pub m: i32 }
impl Ctr {
    pub fn bump(&mut self) -> i32 { self.n += 10; self.m *= 2; self.n }
    pub fn t4(&mut self) -> i32 { self.n.max(self.bump() - 5) }
}
