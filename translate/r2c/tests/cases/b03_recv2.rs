//cfg: struct @ P
//cfg: struct @ Ctr
//cfg: fn @ P::addx
//cfg: fn @ Ctr::bump
//cfg: fn @ Ctr::t11
//grid: {let mut c = Ctr{p: P{x:{a}}, m:{b}}; let r = c.t11(); (c.p.x, c.m, r)} ||| let '(c, r) := src_Ctr_t11 (Build_Ctr (Build_P {a}) {b}) in (P_x (Ctr_p c), Ctr_m c, r) ||| a=-3,0,5; b=2
#[derive(Clone, Copy, Debug)]
pub struct P { pub x: i32 }
#[derive(Clone, Copy, Debug)]
pub struct Ctr { pub p: P, pub m: i32 }
impl P { pub fn addx(self, d: i32) -> i32 { self.x * 1000 + d } }
impl Ctr {
    pub fn bump(&mut self) -> i32 { self.p.x += 1; self.m *= 2; self.p.x }
    pub fn t11(&mut self) -> i32 { self.p.addx(self.bump()) }
}
