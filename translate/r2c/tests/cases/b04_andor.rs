//cfg: struct @ Ctr
//cfg: fn @ Ctr::bump
//cfg: fn @ Ctr::t6
#[derive(Clone, Copy, Debug)]
pub struct Ctr { pub n: i32, pub m: i32 }
impl Ctr {
    pub fn bump(&mut self) -> i32 { self.n += 10; self.m *= 2; self.n }
    pub fn t6(&mut self, a: i32) -> bool { a > 0 && self.bump() > 0 }
}
