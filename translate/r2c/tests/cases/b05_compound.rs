//cfg: struct @ Ctr
//cfg: fn @ Ctr::bump
//cfg: fn @ Ctr::t7
#[derive(Clone, Copy, Debug)]
pub struct Ctr { pub n: i32, pub m: i32 }
impl Ctr {
    pub fn bump(&mut self) -> i32 { self.n += 10; self.m *= 2; self.n }
    pub fn t7(&mut self) -> i32 { self.n += self.bump(); self.n }
}
