//cfg: struct @ P
//cfg: struct @ Ctr
//cfg: fn @ Ctr::bump
//cfg: fn @ Ctr::t9
//cfg: fn @ Ctr::t9b
//grid: {let mut c = Ctr{n:{a}, m:{b}}; let r = c.t9(); (c.n, c.m, r.x, r.y)} ||| let '(c, r) := src_Ctr_t9 (Build_Ctr {a} {b}) in (Ctr_n c, Ctr_m c, P_x r, P_y r) ||| a=-3,0,5; b=2
//grid: {let mut c = Ctr{n:{a}, m:{b}}; let r = c.t9b(P{x:1,y:2}); (c.n, c.m, r.x, r.y)} ||| let '(c, r) := src_Ctr_t9b (Build_Ctr {a} {b}) (Build_P 1 2) in (Ctr_n c, Ctr_m c, P_x r, P_y r) ||| a=-3,0,5; b=2
#[derive(Clone, Copy, Debug)]
pub struct P { pub x: i32, pub y: i32 }
#[derive(Clone, Copy, Debug)]
pub struct Ctr { pub n: i32, pub m: i32 }
impl Ctr {
    pub fn bump(&mut self) -> i32 { self.n += 10; self.m *= 2; self.n }
    pub fn t9(&mut self) -> P { P { y: self.bump(), x: self.bump() } }
    pub fn t9b(&mut self, p: P) -> P { P { y: self.bump() + self.m, ..p } }
}
