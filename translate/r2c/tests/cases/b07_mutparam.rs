//cfg: fn @ inc
//cfg: fn @ add3
//cfg: fn @ u1
//cfg: fn @ u2
//cfg: fn @ u3
//cfg: fn @ u4
//cfg: fn @ u5
//grid: u1({a}) ||| src_u1 {a} ||| a=-3,0,5,9
//grid: u2({a}) ||| src_u2 {a} ||| a=-3,0,5,9
//grid: u3({a}) ||| src_u3 {a} ||| a=-3,0,5,9
//grid: u4({a}) ||| src_u4 {a} ||| a=-3,0,5,9
//grid: u5({a}) ||| src_u5 {a} ||| a=-3,0,5,9
pub fn inc(x: &mut i32, d: i32) -> i32 { *x += d; *x * 2 }
pub fn add3(a: i32, b: i32, c: i32) -> i32 { a * 10000 + b * 100 + c }
pub fn u1(a: i32) -> i32 { let mut v = a; let r = inc(&mut v, 3); if r > 10 { v } else { -v } }
pub fn u2(a: i32) -> i32 { let mut v = a; add3(v, inc(&mut v, 1), v) }
pub fn u3(a: i32) -> i32 { let mut v = a; add3(inc(&mut v, 1), v, inc(&mut v, 2)) }
pub fn u4(a: i32) -> i32 { let mut v = a; let w = v; let r = v + inc(&mut v, 1) + w; r * 100 + v }
pub fn u5(a: i32) -> i32 { let mut v = a; let mut w = a; let r = inc(&mut v, 1) - inc(&mut w, 2) * v; r * 100 + w }
