//cfg: struct @ S
//cfg: fn @ S::z1
//cfg: fn @ S::z2
//grid: {let mut s = S{a:{a}, b:{b}}; let r = s.z1(); (s.a, s.b, r)} ||| let '(c, r) := src_S_z1 (Build_S {a} {b}) in (S_a c, S_b c, r) ||| a=-3,0,5; b=2,7
//grid: {let mut s = S{a:{a}, b:{b}}; let r = s.z2({c}); (s.a, s.b, r)} ||| let '(c, r) := src_S_z2 (Build_S {a} {b}) {c} in (S_a c, S_b c, r) ||| a=-3,0,5; b=2,7; c=true,false
#[derive(Clone, Copy, Debug)]
pub struct S { pub a: i32, pub b: i32 }
impl S {
    pub fn z1(&mut self) -> i32 { let r = &mut self.a; *r += 1; let old = *r; *r *= 2; self.b += old; self.a + old }
    pub fn z2(&mut self, left: bool) -> i32 {
        let (e, k) = match left { true => (&mut self.a, self.b), false => (&mut self.b, self.a) };
        *e += k; *e = *e * 2; let v = *e; v + k
    }
}
