//cfg: struct @ It
//cfg: fn @ It::step
//cfg: fn @ It::two
//cfg: fn @ rg
//grid: {let mut s = It{r:{a}..{b}, k:0}; let r = s.step(); (s.r.start, s.r.end, s.k, r)} ||| let '(c, r) := src_It_step (Build_It ({a},{b}) 0) in (It_r c, It_k c, r) ||| a=-3,0,5; b=-3,1,5
//grid: {let mut s = It{r:{a}..{b}, k:0}; let r = s.two(); (s.r.start, s.r.end, s.k, r)} ||| let '(c, r) := src_It_two (Build_It ({a},{b}) 0) in (It_r c, It_k c, r) ||| a=-3,0,5; b=-3,1,5
//grid: rg({a},{b},{x}) ||| src_rg {a} {b} {x} ||| a=-3,0,5; b=-3,0,5; x=-3,0,4,5
#[derive(Clone, Debug)]
pub struct It { pub r: core::ops::Range<i32>, pub k: i32 }
impl It {
    pub fn step(&mut self) -> Option<i32> { let v = self.r.next()?; self.k += v; Some(v * 2) }
    pub fn two(&mut self) -> (Option<i32>, Option<i32>, i32) { let a = self.r.next(); let s = self.r.start; let b = self.r.next(); (a, b, s) }
}
pub fn rg(a: i32, b: i32, x: i32) -> (bool, bool, bool, bool, i32, i32) {
    let r = a..b; let ri = a..=b;
    (r.contains(&x), ri.contains(&x), r.is_empty(), ri.is_empty(), r.start, r.end)
}
