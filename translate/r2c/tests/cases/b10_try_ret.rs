//cfg: fn @ half
//cfg: fn @ q1
//cfg: fn @ q2
//cfg: fn @ q3
//cfg: fn @ q4
//cfg: fn @ q5
//grid: q1({a},{b}) ||| src_q1 {a} {b} ||| a=-4,-3,0,5,6; b=-3,2,8
//grid: q2({a},{b}) ||| src_q2 {a} {b} ||| a=-4,-3,0,5,6; b=-3,2,8
//grid: q3({a},{b}) ||| src_q3 {a} {b} ||| a=-4,-3,0,5,6; b=-3,0,2,8
//grid: q4({a},{b}) ||| src_q4 {a} {b} ||| a=-4,-3,0,5,6; b=-3,0,2,8
//grid: q5({a},{b}) ||| src_q5 {a} {b} ||| a=-4,-3,0,5,6; b=-3,0,2,8
pub fn half(a: i32) -> Option<i32> { if a % 2 == 0 { Some(a / 2) } else { None } }
pub fn q1(a: i32, b: i32) -> Option<i32> { let v = half(a)? * 100 + half(b)?; Some(v - 1) }
pub fn q2(a: i32, b: i32) -> Option<i32> { Some(half(a)? - half(b)? * 3) }
pub fn q3(a: i32, b: i32) -> i32 { if a > 0 { if b > 0 { return 1; } let c = a + b; if c == 0 { return 2; } } a * 10 + b }
pub fn q4(a: i32, b: i32) -> i32 { let x = { if a < 0 { return -1; } a * 2 }; let y = match b { 0 => return x, 2 => 7, _ => { if x > 8 { return 99; } b } }; x * 100 + y }
pub fn q5(a: i32, b: i32) -> i32 { let mut t = a; if b > 0 { t += 1; if t > 5 { return t * 1000; } t += 10; } else if b == 0 { return t; } t + b }
