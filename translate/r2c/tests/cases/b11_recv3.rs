//cfg: struct @ Ctr
//cfg: fn @ Ctr::addn
//cfg: fn @ Ctr::bump
//cfg: fn @ Ctr::t14
//cfg: fn @ Ctr::t15
//cfg: fn @ Ctr::t16
//cfg: fn @ Ctr::t17
//grid: {let mut c = Ctr{n:{a}, m:{b}}; let r = c.t14(); (c.n, c.m, r)} ||| let '(c, r) := src_Ctr_t14 (Build_Ctr {a} {b}) in (Ctr_n c, Ctr_m c, r) ||| a=-3,0,5; b=2
//grid: {let mut c = Ctr{n:{a}, m:{b}}; let r = c.t15(); (c.n, c.m, r)} ||| let '(c, r) := src_Ctr_t15 (Build_Ctr {a} {b}) in (Ctr_n c, Ctr_m c, r) ||| a=-3,0,5; b=2
//grid: {let mut c = Ctr{n:{a}, m:{b}}; let r = c.t16(); (c.n, c.m, r)} ||| let '(c, r) := src_Ctr_t16 (Build_Ctr {a} {b}) in (Ctr_n c, Ctr_m c, r) ||| a=-3,0,5; b=2
//grid: {let mut c = Ctr{n:{a}, m:{b}}; let r = c.t17(); (c.n, c.m, r)} ||| let '(c, r) := src_Ctr_t17 (Build_Ctr {a} {b}) in (Ctr_n c, Ctr_m c, r) ||| a=-3,0,5; b=2
#[derive(Clone, Copy, Debug)]
pub struct Ctr { pub n: i32, pub m: i32 }
impl Ctr {
    pub fn addn(self, d: i32) -> i32 { self.n * 1000 + d }
    pub fn bump(&mut self) -> i32 { self.n += 1; self.m *= 2; self.n }
    pub fn t14(&mut self) -> i32 { self.addn(self.bump()) }
    pub fn t15(&mut self) -> i32 { if self.m > 100 { return self.bump() * 100 + self.n; } self.bump().max(self.n - 5) + self.m }
    pub fn t16(&mut self) -> i32 { let v = if self.bump() > 3 { self.bump() } else { self.n * 10 }; v + self.n }
    pub fn t17(&mut self) -> i32 { let c = *self; let (a, b) = (self.bump(), c.n); a * 100 + b + c.addn(self.bump()) }
}
