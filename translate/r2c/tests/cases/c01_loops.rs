//cfg: fn @ l1
//cfg: fn @ l2
//cfg: fn @ l3
//cfg: fn @ l4
//grid: l1({a}) ||| un (src_l1 50 {a}) ||| a=-3,0,1,5,9
//grid: l2({a},{b}) ||| un (src_l2 50 {a} {b}) ||| a=-3,0,1,5,9; b=0,3,4
//grid: l3({a}) ||| un (src_l3 50 {a}) ||| a=-3,0,1,5,9
//grid: l4({a}) ||| un (src_l4 200 {a}) ||| a=0,1,5,9,27
//case: 0 ||| match src_l1 3 9 with None => 0 | Some _ => 1 end
//case: 0 ||| match src_l4 5 27 with None => 0 | Some _ => 1 end
pub fn l1(n: i32) -> i32 { let mut i: i32 = 0; let mut acc: i32 = 0; while i < n { i += 1; if i % 2 == 0 { continue; } acc += i; } acc * 100 + i }
pub fn l2(n: i32, k: i32) -> i32 { let mut i = 0; let mut acc = 1; loop { if i >= n { break; } if acc > 20 && k > 3 { return -acc; } acc = acc * 2 + k; i += 1; } acc + i }
pub fn l3(n: i32) -> i32 { let mut i = 0; let mut x = n; while i < 3 { let x2 = x + 1; let i2 = i; x = x2 * 2; i = i2 + 1; let x = 1000; let _ = x; } x + i }
pub fn l4(n: u32) -> u32 { let mut steps: u32 = 0; let mut x = n; while x != 1 && x != 0 { if x % 2 == 0 { x = x / 2; } else { x = 3 * x + 1; } steps += 1; } steps }
