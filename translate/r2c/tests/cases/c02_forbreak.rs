//cfg: fn @ fb
//grid: fb({a}) ||| un (src_fb 50 {a}) ||| a=0,1,2,3,5
pub fn fb(n: i32) -> i32 {
    let mut i = 0; let mut acc = 0;
    while i < n {
        for d in [1, 2, 3] {
            if d + i == 3 { break; }
            acc += d;
        }
        i += 1;
    }
    acc * 100 + i
}
