//cfg: fn @ fc
//grid: fc({a}) ||| un (src_fc 50 {a}) ||| a=0,1,2,3,5
pub fn fc(n: i32) -> i32 {
    let mut i = 0; let mut acc = 0;
    while i < n {
        i += 1;
        for d in [1, 2, 3] {
            if d == 2 { continue; }
            acc += d;
        }
        acc += 1000;
    }
    acc * 100 + i
}
