//cfg: fn @ nl
//grid: nl({a}) ||| src_nl 50 {a} ||| a=0,1,2,3,5
pub fn nl(n: i32) -> i32 {
    let mut i = 0; let mut acc = 0;
    while i < n {
        let mut j = 0;
        while j < i { if j == 2 { break; } acc += j + 1; j += 1; }
        i += 1;
    }
    acc * 100 + i
}
