//cfg: fn @ f1
//cfg: fn @ f2
//grid: f1({a}) ||| src_f1 {a} ||| a=-3,0,1,5
//grid: f2({a}) ||| src_f2 {a} ||| a=-3,0,1,5
pub fn f1(a: i32) -> i32 { let mut acc = 0; for d in [1, -2, 3] { acc = acc * 10 + d * a; } acc }
pub fn f2(a: i32) -> i32 { let mut acc = a; for (d, e) in [(1, 2), (3, 4)] { if acc > 3 { return acc; } acc += d * e; } acc }
