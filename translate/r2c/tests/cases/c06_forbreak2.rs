//cfg: fn @ f3
pub fn f3(a: i32) -> i32 { let mut acc = 0; for d in [1, 2, 3] { if d == a { break; } acc += d; } acc }
