//cfg: fn @ h1
//cfg: fn @ h2
//cfg: fn @ h3
//cfg: fn @ h4
//cfg: fn @ h5
//cfg: fn @ h6
//cfg: fn @ h7
//grid: h1({a}) ||| src_h1 {a} ||| a=-3,0,5
//grid: h2({a},{b}) ||| src_h2 {a} {b} ||| a=-3,0,5; b=1,7
//grid: h3({a},{b}) ||| src_h3 {a} {b} ||| a=-3,0,5; b=1,7
//grid: h4({a},{b}) ||| src_h4 {a} {b} ||| a=-3,0,5; b=1,7
//grid: h5({a},{b}) ||| src_h5 {a} {b} ||| a=-3,0,5; b=true,false
//grid: h6({a},{b}) ||| src_h6 {a} {b} ||| a=-3,0,5; b=true,false
//grid: h7({a},{b}) ||| src_h7 {a} {b} ||| a=-3,0,5; b=true,false
pub fn h1(x: i32) -> i32 { let x = x + 1; let x = x * 2; let y = x; let x = x - y / 3; x * 100 + y }
pub fn h2(a: i32, b: i32) -> i32 { let (a, b) = (b, a); let (b, a) = (a + 1, b * 2); a * 100 + b }
pub fn h3(a: i32, b: i32) -> i32 { let o = if a > 0 { Some(b) } else { None }; match o { Some(a) => a + b, None => a } }
pub fn h4(a: i32, b: i32) -> i32 { let mut y = a; let f = move |z: i32| z * 100 + y; y = b; let g = |a: i32| a * 2 + y; f(1) + g(b) * 10000 + a }
pub fn h5(a: i32, c: bool) -> i32 { let mut x = a; if c { x += 1; let x = 100; let _u = x; } else { let mut x = 7; x += 1; let _v = x; } x }
pub fn h6(a: i32, c: bool) -> i32 { let x = a; let mut x = x + 1; let mut y = 5; let r = if c { x += 1; y -= 1; 10 } else { y += x; 20 }; x * 10000 + y * 100 + r }
pub fn h7(a: i32, c: bool) -> i32 { let mut x = a; let mut y = 0; if c { if a > 0 { x = 1; } else { y = 2; } } else { match a { 0 => { y = 9; } _ => {} } } x * 100 + y }
