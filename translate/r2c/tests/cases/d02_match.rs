//cfg: fn @ p1
//cfg: fn @ p2
//cfg: fn @ p3
//cfg: fn @ p4
//cfg: fn @ p5
//cfg: fn @ p6
//cfg: fn @ p7
//grid: p1({a}) ||| src_p1 {a} ||| a=-2,-1,0,1,2,3,9
//grid: p2({a},{b}) ||| src_p2 {a} {b} ||| a=0,1,2; b=0,1,2
//grid: p3({a},{b}) ||| src_p3 {a} {b} ||| a=true,false; b=true,false
//grid: p4({a},{b}) ||| src_p4 {a} {b} ||| a=-1,0,1,5; b=-1,0,3
//grid: p5({a}) ||| src_p5 {a} ||| a=-1,0,1,5,7
//grid: p6({a}) ||| src_p6 {a} ||| a=-1,0,1,5,7
//grid: p7({a},{b}) ||| src_p7 {a} {b} ||| a=-1,0,1,5,7; b=0,1
pub fn p1(a: i32) -> i32 { match a { 0 => 10, -1 => 11, 1 | 2 => 12, n => n + 100 } }
pub fn p2(a: u8, b: u8) -> i32 { match (a, b) { (0, _) => 1, (_, 0) => 2, (1, 1) | (2, 2) => 3, _ => 4 } }
pub fn p3(a: bool, b: bool) -> i32 { match (a, b) { (true, x) => if x { 1 } else { 2 }, (false, true) => 3, (false, false) => 4 } }
pub fn p4(a: i32, b: i32) -> i32 { match a { x if x > b => 1, 0 => 2, x if x == b => 3, _ => 4 } }
pub fn p5(a: i32) -> i32 { let o = if a > 0 { Some(a) } else { None }; if let Some(5) = o { 50 } else if let Some(v) = o { v } else { -1 } }
pub fn p6(a: i32) -> bool { matches!(a, 1 | 5) || matches!(if a > 0 { Some(a) } else { None }, Some(7)) }
pub fn p7(a: i32, b: i32) -> i32 { let o = if a > 0 { Some((a, b)) } else { None }; match o { Some((5, 0)) | Some((7, 1)) => 1, Some((x, 0)) | Some((0, x)) => x, Some(_) => 2, None => 3 } }
