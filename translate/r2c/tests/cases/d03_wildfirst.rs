//cfg: fn @ w1
pub fn w1(a: i32) -> i32 { match a { _ => 1, 0 => 2 } }
