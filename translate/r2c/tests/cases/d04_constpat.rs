//cfg: const @ LIMIT
//cfg: fn @ w2
pub const LIMIT: i32 = 5;
pub fn w2(a: i32) -> i32 { match a { LIMIT => 1, _ => 0 } }
