//cfg: const @ LIMIT
//cfg: fn @ w3
//grid: w3({a}) ||| src_w3 {a} ||| a=0,5,7
pub const LIMIT: i32 = 5;
pub fn w3(a: i32) -> i32 { match a { LIMIT => 1, other => other * 2 } }
