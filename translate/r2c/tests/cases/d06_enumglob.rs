//cfg: enum @ Side
//cfg: fn @ w4
//grid: w4(Side::Left) + w4(Side::Right) * 10 ||| src_w4 Side_Left + src_w4 Side_Right * 10 ||| 
use Side::*;
#[derive(Clone, Copy, Debug)]
pub enum Side { Left, Right }
pub fn w4(s: Side) -> i32 { match s { Right => 2, other => { let _ = other; 1 } } }
