//cfg: fn @ w5
pub fn w5(a: i32) -> i32 { match a { 1..=5 => 1, _ => 0 } }
