//cfg: const @ LIMIT
//cfg: fn @ w6
//cfg: fn @ w7
//grid: w6({a},{b}) ||| src_w6 {a} {b} ||| a=0,5,7; b=0,1
//grid: w7({a}) ||| src_w7 {a} ||| a=0,4,5,7
pub const LIMIT: i32 = 5;
pub fn w6(a: i32, b: i32) -> i32 { match a { LIMIT if b > 0 => 1, _ => 0 } }
pub fn w7(a: i32) -> i32 { match a { LIMIT => 1, x if x > 4 => 2, _ => 3 } }
