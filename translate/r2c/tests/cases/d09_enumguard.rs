//cfg: enum @ Side
//cfg: fn @ w8
//grid: w8(Side::Left,{c}) + w8(Side::Right,{c}) * 10 ||| src_w8 Side_Left {c} + src_w8 Side_Right {c} * 10 ||| c=true,false
use Side::*;
#[derive(Clone, Copy, Debug)]
pub enum Side { Left, Right }
pub fn w8(s: Side, c: bool) -> i32 { match s { Left if c => 1, _ => 0 } }
