//cfg: fn src/other/helpers.rs helper
//cfg: fn @ g
//grid: g({a}) ||| src_g {a} ||| a=0,5
fn helper(x: i32) -> i32 { x * 1000 }
pub fn g(x: i32) -> i32 { helper(x) }
