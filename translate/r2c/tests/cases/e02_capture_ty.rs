//cfg: struct src/other/helpers.rs V
//cfg: fn src/other/helpers.rs V::get
//cfg: fn @ use_v
//grid: use_v(V{v:{a}}) ||| src_use_v (Build_V {a}) ||| a=-7,7
pub struct V { pub v: i32 }
impl V { pub fn get(&self) -> i32 { self.v / 2 + 1000 } }
pub fn use_v(q: V) -> i32 { q.get() }
