//cfg: struct @ W
//cfg: struct src/other/helpers.rs W
//cfg: fn @ W::half
//cfg: fn src/other/helpers.rs W::geth
//grid: W{v:{a}}.half() ||| src_W_half (Build_W {a}) ||| a=-7,7
pub struct W { pub v: i32 }
impl W { pub fn half(&self) -> i64 { (self.v / 2) as i64 } }
