//cfg: const src/other/helpers.rs KK
//cfg: fn @ uk
//grid: uk({a}) ||| src_uk {a} ||| a=0,5
const KK: i32 = 1000;
pub fn uk(a: i32) -> i32 { a + KK }
