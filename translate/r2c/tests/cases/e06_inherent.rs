//cfg: struct @ P
//cfg: fn @ P::Tr::val
//cfg: fn @ up
//grid: up({a}) ||| src_up {a} ||| a=0,5
pub struct P { pub x: i32 }
pub trait Tr { fn val(&self) -> i32; }
impl Tr for P { fn val(&self) -> i32 { self.x + 1 } }
impl P { pub fn val(&self) -> i32 { self.x * 1000 } }
pub fn up(a: i32) -> i32 { let p = P { x: a }; p.val() }
