//cfg: fn @ o1
//cfg: fn @ o2
//cfg: fn @ o3
//cfg: fn @ o4
//cfg: fn @ o5
//cfg: fn @ o6
//grid: o1({a},{b}) ||| src_o1 {a} {b} ||| a=-7,-1,0,7; b=true,false
//grid: o2({a},{b}) ||| src_o2 {a} {b} ||| a=-7,-1,0,7; b=true,false
//grid: o3({a},{b}) ||| src_o3 {a} {b} ||| a=-7,-1,0,7; b=true,false
//grid: o4({a},{b}) ||| src_o4 {a} {b} ||| a=-7,-1,0,7; b=true,false
//grid: o5({a},{b}) ||| src_o5 {a} {b} ||| a=0,1,7,4294967295; b=true,false
//grid: o6({a},{b}) ||| src_o6 {a} {b} ||| a=-7,-1,0,7; b=true,false
pub fn o1(a: i32, c: bool) -> (Option<i32>, i32, i32) { let o = if c { Some(a) } else { None }; (o.map(|v| v / 2), o.unwrap_or(-5) / 2, o.map_or(-9, |v| v % 2)) }
pub fn o2(a: i32, c: bool) -> (Option<i32>, Option<i32>, bool, bool) { let o = c.then_some(a); (o.filter(|v| *v > 0), o.and_then(|v| if v < 0 { Some(-v) } else { None }), o.is_some_and(|v| v == 7), o.is_none()) }
pub fn o3(a: i32, c: bool) -> (Option<i32>, Option<i32>) { let o = c.then_some(a); let p: Option<i32> = None; (o.or(Some(3)), p.or(o)) }
pub fn o4(a: i32, c: bool) -> i32 { let o = c.then_some(a); let v_ = 100; let t_ = 7; o.unwrap_or(v_) + t_ + o.map(|v_| v_ + 1).unwrap_or(v_) }
pub fn o5(a: u32, c: bool) -> (Option<u32>, u32) { let o = c.then_some(a); (o.map(|v| v / 2), o.map(|v| v.saturating_sub(3)).unwrap_or(1) / 2) }
pub fn o6(a: i32, c: bool) -> Option<(i32, i32)> { let o = c.then_some((a, a * 2)); o.map(|(x, y)| (y, x)).filter(|(p, q)| *p != 0 && *q > -100) }
