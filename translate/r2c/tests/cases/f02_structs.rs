//cfg: struct @ P
//cfg: struct @ T2
//cfg: struct @ N
//cfg: fn @ P::new
//cfg: fn @ P::upd
//cfg: fn @ P::upd2
//cfg: fn @ P::shuffled
//cfg: fn @ P::Add::add
//cfg: fn @ P::Neg::neg
//cfg: fn @ P::Mul<i32>::mul
//cfg: fn @ T2::sum
//cfg: fn @ T2::swap
//cfg: fn @ N::get
//cfg: fn @ ops
//cfg: fn @ arr
//grid: {let r = P::new({a},{b}).upd(); (r.x, r.y, r.z)} ||| let r := src_P_upd (src_P_new {a} {b}) in (P_x r, P_y r, P_z r) ||| a=-3,5; b=2,7
//grid: {let r = P::new({a},{b}).upd2(P::new(9,8)); (r.x, r.y, r.z)} ||| let r := src_P_upd2 (src_P_new {a} {b}) (src_P_new 9 8) in (P_x r, P_y r, P_z r) ||| a=-3,5; b=2,7
//grid: {let r = P::shuffled({a},{b}); (r.x, r.y, r.z)} ||| let r := src_P_shuffled {a} {b} in (P_x r, P_y r, P_z r) ||| a=-3,5; b=2,7
//grid: {let r = T2({a},{b}).swap(); (r.0, r.1, r.sum())} ||| let r := src_T2_swap (Build_T2 {a} {b}) in (T2_0 r, T2_1 r, src_T2_sum r) ||| a=-3,5; b=2,7
//grid: ops({a},{b}) ||| src_ops {a} {b} ||| a=-3,5; b=2,7
//grid: arr({a},{b}) ||| src_arr {a} {b} ||| a=-3,5; b=2,7
//grid: N({a}).get() ||| src_N_get (Build_N {a}) ||| a=-3,5
#[derive(Clone, Copy, Debug, PartialEq)]
pub struct P { pub x: i32, pub y: i32, pub z: i32 }
#[derive(Clone, Copy, Debug)]
pub struct T2(pub i32, pub i32);
#[derive(Clone, Copy, Debug)]
pub struct N(pub i32);
impl P {
    pub fn new(x: i32, y: i32) -> Self { P { x, y, z: x - y } }
    pub fn upd(&self) -> P { P { y: self.x * 10, ..*self } }
    pub fn upd2(self, o: P) -> P { P { z: o.x, x: self.z, ..o } }
    pub fn shuffled(a: i32, b: i32) -> P { P { z: a, x: b, y: a - b } }
}
impl core::ops::Add for P { type Output = P; fn add(self, o: P) -> P { P { x: self.x + o.x, y: self.y + o.y, z: self.z + o.z } } }
impl core::ops::Neg for P { type Output = P; fn neg(self) -> P { P { x: -self.x, y: -self.y, z: -self.z } } }
impl core::ops::Mul<i32> for P { type Output = P; fn mul(self, k: i32) -> P { P { x: self.x * k, y: self.y * k, z: self.z * k } } }
impl T2 { pub fn sum(&self) -> i32 { self.0 - self.1 * 2 } pub fn swap(self) -> T2 { T2(self.1, self.0) } }
impl N { pub fn get(&self) -> i32 { self.0 / 2 } }
pub fn ops(a: i32, b: i32) -> (i32, i32, i32) { let p = P::new(a, b); let q = -p + p * 3 + P::new(b, a) * -2; (q.x, q.y, q.z) }
pub fn arr(a: i32, b: i32) -> (i32, i32) { let v = [a, b, a - b]; let [p, q, r] = v; let t = (a, (b, a * b)); (v[0] * 100 + v[2], p + q * r + (t.1).1 + t.0) }
