//cfg: mvar M_bits u32
//cfg: macro @ impl_thing 0 as @.t $t=u8
//cfg: struct @.t M_name = Z newtype
//cfg: const @.t M_name::MAXV
//cfg: fn @.t M_name::half
//cfg: fn @.t M_name::top
//cfg: fn @.t M_name::width
//cfg: fn @.t M_name::mix
//grid: B({a}).half() ||| src_M_name_half {a} ||| a=-7,7,100
//grid: B({a}).top() ||| src_M_name_top 12 {a} ||| a=-7,7,2048,4095
//grid: B::width() ||| src_M_name_width 12 |||
//grid: B({a}).mix() ||| src_M_name_mix 12 {a} ||| a=-7,7,2048,4095
//grid: B::MAXV ||| src_M_name_MAXV 12 |||
//grid: A({a}).half() ||| src_M_name_half {a} ||| a=7,100,200
//grid: A({a}).top() ||| src_M_name_top 8 {a} ||| a=7,100,200
//grid: A({a}).mix() ||| src_M_name_mix 8 {a} ||| a=7,100,200
//grid: A::MAXV ||| src_M_name_MAXV 8 |||
macro_rules! impl_thing {
    ($name:ident, $t:ty, $bits:expr) => {
        #[derive(Clone, Copy, Debug)]
        pub struct $name(pub $t);
        impl $name {
            pub const MAXV: $t = ((1u32 << $bits) - 1) as $t;
            pub fn half(self) -> $t { self.0 / 2 }
            pub fn top(self) -> $t { self.0 >> ($bits - 1) }
            pub fn width() -> usize { $bits as usize }
            pub fn mix(self) -> i32 { (self.0 as i32) * 2 - $bits as i32 + (self.0 as u8) as i32 }
        }
    };
}
impl_thing!(A, u8, 8);
impl_thing!(B, i16, 12);
