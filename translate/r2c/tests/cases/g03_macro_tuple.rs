//cfg: macro @ impl_pair 0 as @.a prefix=PA_ $t=u8 $s=u8
//cfg: macro @ impl_pair 0 as @.b prefix=PB_ $t=i16 $s=i16
//cfg: struct @.a PA_name = Z newtype
//cfg: fn @.a PA_name::half
//grid: A({a}).half() ||| src_PA_name_half {a} ||| a=7,100,200
// every parameter value is bound by some instance, but no instance has the TUPLE (u8, i16) / (i16, u8) of the invocations
macro_rules! impl_pair {
    ($name:ident, $t:ty, $s:ty) => {
        #[derive(Clone, Copy, Debug)]
        pub struct $name(pub $t);
        impl $name {
            pub fn half(self) -> $s { (self.0 as $s) / 2 }
        }
    };
}
impl_pair!(A, u8, i16);
impl_pair!(B, i16, u8);
