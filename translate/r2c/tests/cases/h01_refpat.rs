//cfg: struct @ Ctr
//cfg: fn @ Ctr::k1
//grid: {let mut c = Ctr{n:{a}, m:{b}}; let r = c.k1(); (c.n, c.m, r)} ||| let '(c, r) := src_Ctr_k1 (Build_Ctr {a} {b}) in (Ctr_n c, Ctr_m c, r) ||| a=-3,0,5; b=2
#[derive(Clone, Copy, Debug)]
pub struct Ctr { pub n: i32, pub m: i32 }
impl Ctr {
    pub fn k1(&mut self) -> i32 { let Ctr { n, m } = self; *n += *m; *n }
}
