//cfg: fn @ k2
//grid: k2({a}) ||| src_k2 {a} ||| a=-3,0,5
pub fn k2(a: i32) -> Option<i32> { let mut o = if a > 0 { Some(a) } else { None }; match o { Some(ref mut v) => { *v += 1; } None => {} } o }
