//cfg: fn @ k3
//cfg: fn @ k3c
//grid: k3c({a},{b}) ||| src_k3c {a} {b} ||| a=-3,0,5; b=2
pub fn k3(t: &mut (i32, i32)) -> i32 { let (a, b) = t; *a += *b; *a * 2 }
pub fn k3c(a: i32, b: i32) -> (i32, i32, i32) { let mut t = (a, b); let r = k3(&mut t); (t.0, t.1, r) }
