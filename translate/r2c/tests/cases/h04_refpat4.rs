//cfg: struct @ Ctr
//cfg: fn @ Ctr::k4
//grid: {let mut c = Ctr{n:{a}, m:{b}}; let r = c.k4(); (c.n, c.m, r)} ||| let '(c, r) := src_Ctr_k4 (Build_Ctr {a} {b}) in (Ctr_n c, Ctr_m c, r) ||| a=-3,0,5; b=2
#[derive(Clone, Copy, Debug)]
pub struct Ctr { pub n: i32, pub m: i32 }
impl Ctr {
    pub fn k4(&mut self) -> i32 { match self { Ctr { n, m } if *m > 0 => { *n += 1; *n } Ctr { m, .. } => { *m = 7; 0 } } }
}
