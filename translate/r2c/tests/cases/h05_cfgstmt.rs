//cfg: fn @ cf
//grid: cf({a}) ||| src_cf {a} ||| a=-3,0,5
pub fn cf(a: i32) -> i32 {
    #[cfg(any())]
    let a = a + 1000;
    #[cfg(feature = "nonexistent")]
    { return -1; }
    a * 2
}
