//cfg: fn @ mm
//grid: mm({a},{b}) ||| src_mm {a} {b} ||| a=-3,0,5; b=2
fn min(a: i32, b: i32) -> i32 { a * 100 + b }
pub fn mm(a: i32, b: i32) -> i32 { min(a, b) }
