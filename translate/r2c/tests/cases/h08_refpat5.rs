//cfg: struct @ Ctr
//cfg: struct @ Out
//cfg: fn @ Ctr::bump
//cfg: fn @ Out::k5
//grid: {let mut o = Out{c: Ctr{n:{a}}, z: 1}; let r = o.k5(); (o.c.n, o.z, r)} ||| let '(o, r) := src_Out_k5 (Build_Out (Build_Ctr {a}) 1) in (Ctr_n (Out_c o), Out_z o, r) ||| a=0,5
#[derive(Clone, Copy, Debug)]
pub struct Ctr { pub n: i32 }
#[derive(Clone, Copy, Debug)]
pub struct Out { pub c: Ctr, pub z: i32 }
impl Ctr { pub fn bump(&mut self) -> i32 { self.n += 1; self.n } }
impl Out { pub fn k5(&mut self) -> i32 { let Out { c, z } = self; let r = c.bump(); *z += r; r * 10 } }
