//cfg: struct @ P
//cfg: struct @ Ctr
//cfg: fn @ seq
//cfg: fn @ cm
//cfg: fn @ setp
//cfg: fn @ usep
//cfg: fn @ Ctr::tr
//cfg: fn @ clo
//cfg: fn @ tup3
//grid: seq({a}) ||| un (src_seq 50 {a}) ||| a=0,1,4
//grid: cm({a},{b}) ||| src_cm {a} {b} ||| a=-3,0,5; b=-3,0,5
//grid: usep({a},{b}) ||| src_usep {a} {b} ||| a=-3,0,5; b=2
//grid: {let mut c = Ctr{n:{a}, o: if {b} > 0 {Some({b})} else {None}}; let r = c.tr(); (c.n, r)} ||| let '(c, r) := src_Ctr_tr (Build_Ctr {a} (if 0 <? {b} then Some {b} else None)) in (Ctr_n c, r) ||| a=-3,0,5; b=0,2
//grid: clo({a},{b}) ||| src_clo {a} {b} ||| a=-3,0,5; b=2,7
//grid: tup3({a},{b}) ||| src_tup3 {a} {b} ||| a=-3,0,5; b=2,7
use core::cmp::Ordering;
#[derive(Clone, Copy, Debug)]
pub struct P { pub x: i32, pub y: i32 }
#[derive(Clone, Copy, Debug)]
pub struct Ctr { pub n: i32, pub o: Option<i32> }
pub fn seq(n: i32) -> i32 { let mut i: i32 = 0; let mut a: i32 = 0; while i < n { a += i; i += 1; } let mut j: i32 = 0; while j < 3 { a = a * 2 + i; j += 1; if a > 40 { break; } } a * 10 + j }
pub fn cm(a: i32, b: i32) -> i32 { match a.cmp(&b) { Ordering::Less => -1, Ordering::Equal => 0, Ordering::Greater => 1 } }
pub fn setp(p: &mut P, v: i32) -> i32 { p.x = v; (*p).y += p.x; *p = P { x: p.y, y: p.x * 2 }; p.x - p.y }
pub fn usep(a: i32, b: i32) -> (i32, i32, i32) { let mut p = P { x: a, y: b }; let r = setp(&mut p, 9); (p.x, p.y, r) }
impl Ctr { pub fn tr(&mut self) -> Option<i32> { self.n += 1; let v = self.o?; self.n += v; Some(self.n * 2) } }
pub fn clo(a: i32, b: i32) -> i32 { let f = |x: i32| x * 2 + a; let g = |x: i32, y: i32| f(x) - f(y) / 3; let a = 1000; g(b, a) + f(a) }
pub fn tup3(a: i32, b: i32) -> i32 { let t = (a, b, a - b); let u = (t, (b, a)); t.2 * 100 + (u.1).0 + (u.0).1 * 10 }
