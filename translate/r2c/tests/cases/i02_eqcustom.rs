//cfg: enum @ E
//cfg: fn @ eqt
//grid: (eqt(E::A, E::B), eqt(E::A, E::A)) ||| (src_eqt E_A E_B, src_eqt E_A E_A) |||
#[derive(Clone, Copy, Debug)]
pub enum E { A, B }
impl PartialEq for E { fn eq(&self, _o: &E) -> bool { true } }
pub fn eqt(a: E, b: E) -> bool { a == b }
