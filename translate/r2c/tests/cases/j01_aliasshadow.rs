//cfg: fn @ al
//grid: al({a}) ||| src_al {a} ||| a=0,5
pub fn al(a: i32) -> i32 { let mut v = a; let r = &mut v; let v = 100; *r += 1; *r * 1000 + v }
