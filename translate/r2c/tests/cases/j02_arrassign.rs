//cfg: fn @ aa
pub fn aa(a: i32) -> i32 { let mut v = [a, 2, 3]; v[0] = 5; v[0] + v[1] }
