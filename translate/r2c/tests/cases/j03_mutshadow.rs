//cfg: fn @ sh
//cfg: fn @ shc
//grid: shc({a},{c}) ||| src_shc {a} {c} ||| a=0,5; c=true,false
pub fn sh(x: &mut i32, c: bool) -> i32 { *x += 1; let x = 100; if c { return x; } x + 1 }
pub fn shc(a: i32, c: bool) -> (i32, i32) { let mut v = a; let r = sh(&mut v, c); (v, r) }
