//cfg: fn @ fa
//grid: fa({a}) ||| src_fa {a} ||| a=0,1,5
pub fn fa(a: i32) -> i32 { let mut x = a; for d in [x, x + 1, x * 2] { x += d; } x }
