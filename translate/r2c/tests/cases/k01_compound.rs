//cfg: struct @ S
//cfg: fn @ ca
//cfg: fn @ S::cb
//grid: ca({a},{b}) ||| src_ca {a} {b} ||| a=-7,0,5; b=-3,2
//grid: {let mut s = S{u:{a}, t:({b}, 1)}; s.cb({b}); (s.u, s.t.0, s.t.1)} ||| let s := src_S_cb (Build_S {a} ({b}, 1)) {b} in (S_u s, S_t s) ||| a=0,9,200; b=-3,2
#[derive(Clone, Copy, Debug)]
pub struct S { pub u: u8, pub t: (i32, i32) }
pub fn ca(a: i32, b: i32) -> (i32, i32, i32, i32, i32, i32, i32) {
    let mut x = a; x -= a - b; let mut y = a; y *= a + b; let mut z = a; z /= 2; z %= 3;
    let mut w = a; w ^= b; w |= 1; w &= !2; let mut v = a; v >>= 1; let mut q = 1; q <<= 1 + 1; q += a;
    let mut r = a; r /= b; r -= -b;
    (x, y, z, w, v, q, r)
}
impl S { pub fn cb(&mut self, d: i32) { self.u /= 2; self.u %= 7; self.t.0 -= d - 1; self.t.1 *= self.t.0; self.u = !self.u; } }
