//cfg: struct @ It
//cfg: fn @ It::nxt
//cfg: fn @ It::find
//cfg: fn @ sh31
//grid: {let mut s = It{r:{a}..{b}, k:0}; let r = s.find({c}); (s.r.start, s.k, r)} ||| match src_It_find 50 (Build_It ({a},{b}) 0) {c} with Some (s, r) => (fst (It_r s), It_k s, r) | None => (0,0,None) end ||| a=-3,0,5; b=-3,4,9; c=2,3
//grid: sh31({a}) ||| src_sh31 {a} ||| a=30,31
#[derive(Clone, Debug)]
pub struct It { pub r: core::ops::Range<i32>, pub k: i32 }
impl It {
    pub fn nxt(&mut self) -> Option<i32> { let v = self.r.next()?; self.k += 1; Some(v * v) }
    pub fn find(&mut self, m: i32) -> Option<i32> {
        loop {
            match self.nxt() {
                Some(x) if x % m == 1 => return Some(x),
                Some(0) => { self.k += 100; continue; }
                Some(_) => {}
                None => break,
            }
            self.k += 10;
        }
        None
    }
}
pub fn sh31(a: u32) -> (i64, u32) { ((1 << a) as i64, (1 << a) as u32) }
