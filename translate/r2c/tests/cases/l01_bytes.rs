//cfg: struct @ Oob
//cfg: fn @ ld16
//cfg: fn @ ld24
//cfg: fn @ st16
//cfg: fn @ st24
//cfg: fn @ mid
//cfg: fn @ idx
//cfg: fn @ stmid
//cfg: fn @ first_or
//grid: ld16(&[1,2,3,4,5], {i}, {a}) ||| src_ld16 [1;2;3;4;5] {i} {a} ||| i=0,1,2,3,9223372036854775808; a=true,false
//grid: ld24(&[1,2,3,4,5,6,7], {i}, {a}) ||| src_ld24 [1;2;3;4;5;6;7] {i} {a} ||| i=0,1,2,3,6148914691236517206; a=true,false
//grid: { let mut b = [1u8,2,3,4,5]; let r = st16({v}, &mut b, {i}, {a}).is_ok(); (b.to_vec(), r) } ||| let '(b, r) := src_st16 {v} [1;2;3;4;5] {i} {a} in (b, match r with inl _ => true | inr _ => false end) ||| v=258,65535,7; i=0,1,2,3; a=true,false
//grid: { let mut b = [1u8,2,3,4,5,6,7]; let r = st24({v}, &mut b, {i}, {a}).is_ok(); (b.to_vec(), r) } ||| let '(b, r) := src_st24 {v} [1;2;3;4;5;6;7] {i} {a} in (b, match r with inl _ => true | inr _ => false end) ||| v=66051,16777215,4278190080; i=0,1,2,3; a=true,false
//grid: mid(&[10,20,30,40,50], {x}, {y}) ||| src_mid [10;20;30;40;50] {x} {y} ||| x=0,1,3,4,5,6; y=0,2,4,5,6
//pgrid: idx(&[10,20,30], {i}) ||| src_idx [10;20;30] {i} ||| i=0,1,2,3,100
//grid: { let mut b = [1u8,2,3,4,5,6]; let r = stmid(&mut b, {x}, {y}).is_ok(); (b.to_vec(), r) } ||| let '(b, r) := src_stmid [1;2;3;4;5;6] {x} {y} in (b, match r with inl _ => true | inr _ => false end) ||| x=0,1,3,4,7; y=0,3,4,5,6,7
//grid: first_or(&[{l}], 9) ||| src_first_or [{m}] 9 ||| l=5; m=5
#[derive(Debug, Clone, Copy, PartialEq)]
pub struct Oob;
pub fn ld16(buffer: &[u8], index: usize, alt: bool) -> Option<u16> {
    index.checked_mul(2).and_then(|start| buffer.get(start..)).and_then(|buffer| buffer.get(0..2)).map(|slice| {
        let bytes = slice.try_into().unwrap();
        if alt { u16::from_be_bytes(bytes) } else { u16::from_le_bytes(bytes) }
    })
}
pub fn ld24(buffer: &[u8], index: usize, alt: bool) -> Option<u32> {
    index.checked_mul(3).and_then(|start| buffer.get(start..)).and_then(|buffer| buffer.get(0..3)).map(|slice| {
        let bytes: [_; 3] = slice.try_into().unwrap();
        let mut bytes_extended = [0u8; 4];
        let value = if alt {
            bytes_extended[1..4].copy_from_slice(&bytes);
            u32::from_be_bytes(bytes_extended)
        } else {
            bytes_extended[0..3].copy_from_slice(&bytes);
            u32::from_le_bytes(bytes_extended)
        };
        value
    })
}
pub fn st16(v: u16, buffer: &mut [u8], index: usize, alt: bool) -> Result<(), Oob> {
    let bytes = if alt { v.to_be_bytes() } else { v.to_le_bytes() };
    index.checked_mul(2).and_then(move |start| buffer.get_mut(start..)).and_then(|buffer| buffer.get_mut(0..2)).ok_or(Oob).map(|buffer| buffer.copy_from_slice(&bytes))
}
pub fn st24(v: u32, buffer: &mut [u8], index: usize, alt: bool) -> Result<(), Oob> {
    let bytes = if alt {
        let bytes = v.to_be_bytes();
        [bytes[1], bytes[2], bytes[3]]
    } else {
        let bytes = v.to_le_bytes();
        [bytes[0], bytes[1], bytes[2]]
    };
    index.checked_mul(3).and_then(move |start| buffer.get_mut(start..)).and_then(|buffer| buffer.get_mut(0..3)).ok_or(Oob).map(|buffer| buffer.copy_from_slice(&bytes))
}
pub fn mid(buffer: &[u8], a: usize, b: usize) -> Option<u8> {
    buffer.get(a..b).and_then(|s| s.get(1..)).and_then(|s| s.get(0)).copied()
}
pub fn idx(buffer: &[u8], i: usize) -> u8 { buffer[i] }
pub fn stmid(buffer: &mut [u8], a: usize, b: usize) -> Result<(), Oob> {
    buffer.get_mut(a..b).and_then(|s| s.get_mut(1..3)).ok_or(Oob).map(|s| s.copy_from_slice(&[7u8, 9u8]))
}
pub fn first_or(buffer: &[u8], d: u8) -> u8 { buffer.get(0).copied().unwrap_or(d) }
