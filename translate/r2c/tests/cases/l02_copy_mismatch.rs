//cfg: fn @ bad
//case: bad(1) ||| src_bad 1
// Rust panics at run time (3 elements into a window of 2): the translator must not invent a value
pub fn bad(a: u8) -> u32 {
    let src = [a, a, a];
    let mut ext = [0u8; 4];
    ext[1..3].copy_from_slice(&src);
    u32::from_le_bytes(ext)
}
