//cfg: struct @ W
//cfg: fn @ W::Tr::val
//cfg: fn @ W::val as=src_W_val_inh
//cfg: fn @ use_it inst=P:W
//cfg: fn @ direct
//grid: use_it(&W{v:{a}}) ||| src_use_it (Build_W {a}) ||| a=1,5
//grid: direct(&W{v:{a}}) ||| src_direct (Build_W {a}) ||| a=1,5
// a monomorphic instance of a generic function: the method of the BOUND (trait), not the inherent one of the same name;
// a concrete receiver: the inherent one
pub trait Tr { fn val(&self) -> i32; }
#[derive(Clone, Copy, Debug)]
pub struct W { pub v: i32 }
impl W { pub fn val(&self) -> i32 { self.v * 1000 } }
impl Tr for W { fn val(&self) -> i32 { self.v + 1 } }
pub fn use_it<P: Tr>(p: &P) -> i32 { p.val() * 2 }
pub fn direct(w: &W) -> i32 { w.val() }
