//cfg: tyvar R Z
//cfg: assoc load fn(&[u8],usize)->Option<R>
//cfg: struct @ It
//cfg: fn @ It::step
//cfg: fn @ It::skip
//case: { let d = [5u8, 6, 7]; let mut it = It::<B, ()>::new(&d); (it.step().map(|b| b.0), it.step().map(|b| b.0), it.i) } ||| let ld := fun (d : list Z) (i : Z) => match Casts.slice_get d i with Some v => Some (v + 1) | None => None end in let '(s1, r1) := src_It_step ld (Build_It [5;6;7] 0) in let '(s2, r2) := src_It_step ld s1 in (r1, r2, It_i s2)
//case: { let d = [5u8, 6, 7]; let mut it = It::<B, ()>::new(&d); (it.skip(2).map(|b| b.0), it.skip(5).map(|b| b.0), it.i) } ||| let ld := fun (d : list Z) (i : Z) => match Casts.slice_get d i with Some v => Some (v + 1) | None => None end in let '(s1, r1) := src_It_skip ld (Build_It [5;6;7] 0) 2 in let '(s2, r2) := src_It_skip ld s1 5 in (r1, r2, It_i s2)
// an associated function of a generic parameter (a function parameter of the generated definitions), `inspect` with a
// side effect, PhantomData fields, and a `&mut self` call of the same impl inheriting the abstracted function
use core::marker::PhantomData;
pub trait Ld: Sized { fn load<O>(d: &[u8], i: usize) -> Option<Self>; }
#[derive(Debug, Clone, Copy, PartialEq)]
pub struct B(pub u8);
impl Ld for B { fn load<O>(d: &[u8], i: usize) -> Option<Self> { d.get(i).map(|v| B(*v + 1)) } }
pub struct It<'a, R, O> { pub d: &'a [u8], pub i: usize, r: PhantomData<R>, o: PhantomData<O> }
impl<'a, R: Ld, O> It<'a, R, O> {
    pub fn new(d: &'a [u8]) -> Self { Self { d, i: 0, r: PhantomData, o: PhantomData } }
    pub fn step(&mut self) -> Option<R> { R::load::<O>(self.d, self.i).inspect(|_| { self.i += 1; }) }
    pub fn skip(&mut self, n: usize) -> Option<R> { self.i = self.i.saturating_add(n); self.step() }
}
