//cfg: tyvar C Z
//cfg: const @ SZ
//cfg: struct @ Fb
//cfg: struct @ Md
//cfg: fn @ Fb::set
//cfg: fn @ Md::get
//cfg: fn @ Md::put
//pgrid: { let mut f = Fb::<3, 2, 6> { data: [0; 6], tag: () }; f.set({x}, {y}, 9); f.data.to_vec() } ||| option_map Fb_data (src_Fb_set 3 2 (Build_Fb [0;0;0;0;0;0] tt) {x} {y} 9) ||| x=-1,0,1,2,3; y=-1,0,1,2
//pgrid: { let mut f = Fb::<3, 2, 4> { data: [0; 4], tag: () }; f.set({x}, {y}, 9); f.data.to_vec() } ||| option_map Fb_data (src_Fb_set 3 2 (Build_Fb [0;0;0;0] tt) {x} {y} 9) ||| x=0,1,2,3; y=0,1,2
//pgrid: { let mut m = Md::<u8> { cells: [None; 16], flag: false }; m.put({x}, {y}, Some(5)); (m.get({x}, {y}), m.get(0, 0), m.get({y}, {x})) } ||| obind (src_Md_put (Build_Md (repeat None 16) false) {x} {y} (Some 5)) (fun m => obind (src_Md_get m {x} {y}) (fun a => obind (src_Md_get m 0 0) (fun b => obind (src_Md_get m {y} {x}) (fun c => Some (a, b, c))))) ||| x=-1,0,1,3,4; y=0,2,3,4
//pgrid: { let m = Md::<u8> { cells: [None; 16], flag: false }; m.get({x}, {y}) } ||| src_Md_get (Build_Md (repeat None 16) false) {x} {y} ||| x=-1,0,4; y=-1,3,4
// `a[i] = v`, `a[i]` on arrays whose length is not a small literal (lists), `usize::try_from`, `if let (Ok(x), Ok(y))`,
// const generics of the impl, `assert!`; index out of range and a failing `assert!` are None (partial functions)
pub const SZ: usize = 4;
pub struct Fb<const W: usize, const H: usize, const N: usize> { pub data: [u8; N], pub tag: () }
impl<const W: usize, const H: usize, const N: usize> Fb<W, H, N> {
    pub fn set(&mut self, px: i32, py: i32, v: u8) {
        if let (Ok(x), Ok(y)) = (usize::try_from(px), usize::try_from(py)) {
            if x < W && y < H {
                self.data[y * W + x] = self.data[y * W + x] | v;
            }
        }
    }
}
pub struct Md<C> { pub cells: [Option<C>; SZ * SZ], pub flag: bool }
impl<C: Copy> Md<C> {
    pub fn get(&self, x: i32, y: i32) -> Option<C> {
        if x < 0 || y < 0 || x >= SZ as i32 || y >= SZ as i32 { return None; }
        self.cells[x as usize + y as usize * SZ]
    }
    pub fn put(&mut self, x: i32, y: i32, c: Option<C>) {
        assert!(x >= 0 && y >= 0 && x < SZ as i32 && y < SZ as i32, "inside");
        let i = x + y * SZ as i32;
        self.cells[i as usize] = c;
    }
}
