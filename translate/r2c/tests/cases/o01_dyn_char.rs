//cfg: extern Tr = (Z~->~Z) index(char):usize:Casts.apply1
//cfg: struct @ F
//cfg: fn @ F::cell
//cfg: fn @ is_q
//grid: F { m: &Add1, k: {k} }.cell('{c}') ||| src_F_cell (Build_F (fun c => c + 1) {k}) {n} ||| k=1,5; c=A; n=65
//grid: F { m: &Add1, k: {k} }.cell('{c}') ||| src_F_cell (Build_F (fun c => c + 1) {k}) {n} ||| k=1,5; c=z; n=122
//case: (is_q('?'), is_q('a'), is_q('\u{20ac}')) ||| (src_is_q 63, src_is_q 97, src_is_q 8364)
// `&dyn Trait` as the function its single method computes; `char` as its code point
pub trait Tr { fn index(&self, c: char) -> usize; }
pub struct Add1;
impl Tr for Add1 { fn index(&self, c: char) -> usize { c as usize + 1 } }
pub struct F<'a> { pub m: &'a dyn Tr, pub k: u32 }
impl F<'_> {
    pub fn cell(&self, c: char) -> (u32, u32) {
        let i = self.m.index(c) as u32;
        (i / self.k, i % self.k)
    }
}
pub fn is_q(c: char) -> (bool, usize) { (c == '?' || c > '\u{ff}', c as usize - ' ' as usize) }
