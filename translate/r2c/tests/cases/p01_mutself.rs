//cfg: struct @ Pt
//cfg: struct @ Bx
//cfg: fn @ Pt::AddAssign::add_assign
//cfg: fn @ Bx::shift
//cfg: fn @ Bx::twice
//grid: { let mut b = Bx { o: Pt { x: 1, y: 2 }, w: 7 }; b.shift(Pt { x: {a}, y: 3 }); (b.o.x, b.o.y, b.w) } ||| let b := src_Bx_shift (Build_Bx (Build_Pt 1 2) 7) (Build_Pt {a} 3) in (Pt_x (Bx_o b), Pt_y (Bx_o b), Bx_w b) ||| a=-5,0,9
//grid: { let mut b = Bx { o: Pt { x: 1, y: 2 }, w: 7 }; b.twice(Pt { x: {a}, y: 3 }); (b.o.x, b.o.y, b.w) } ||| let b := src_Bx_twice (Build_Bx (Build_Pt 1 2) 7) (Build_Pt {a} 3) in (Pt_x (Bx_o b), Pt_y (Bx_o b), Bx_w b) ||| a=-5,0,9
// `fn f(&mut self, ..) -> &mut Self { ..; self }`: the generated definition returns the new self
#[derive(Clone, Copy, Debug, PartialEq)]
pub struct Pt { pub x: i32, pub y: i32 }
impl core::ops::AddAssign for Pt { fn add_assign(&mut self, o: Pt) { self.x += o.x; self.y += o.y; } }
#[derive(Clone, Copy, Debug, PartialEq)]
pub struct Bx { pub o: Pt, pub w: u32 }
impl Bx {
    pub fn shift(&mut self, by: Pt) -> &mut Self { self.o += by; self }
    pub fn twice(&mut self, by: Pt) -> &mut Self { self.shift(by); self.shift(by); self }
}
