//cfg: struct @ Bx
//cfg: fn @ Bx::pick
//case: { let mut a = Bx { w: 1 }; let mut b = Bx { w: 2 }; a.pick(&mut b).w } ||| 0
// a `-> &mut Self` method that does NOT return `self`: must be refused
#[derive(Clone, Copy, Debug, PartialEq)]
pub struct Bx { pub w: u32 }
impl Bx {
    pub fn pick<'a>(&'a mut self, other: &'a mut Bx) -> &'a mut Self { self.w += 1; other }
}
