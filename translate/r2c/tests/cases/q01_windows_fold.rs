//cfg: const @ EMPTY
//cfg: enum @ Kind
//cfg: struct @ It
//cfg: fn @ It::new
//cfg: fn @ It::Iterator::next
//cfg: fn @ total
//cfg: fn @ arr_total
//cfg: fn @ first_plus
//cfg: fn @ sum_sq
//case: total(&[]) ||| un (src_total 50 [])
//case: total(&[7]) ||| un (src_total 50 [7])
//case: total(&[3, 4]) ||| un (src_total 50 [3; 4])
//case: total(&[1, 2, 3]) ||| un (src_total 50 [1; 2; 3])
//case: total(&[1, 2, 3, 4, 5]) ||| un (src_total 50 [1; 2; 3; 4; 5])
//case: arr_total([4, 5, 6]) ||| un (src_arr_total 50 (4, 5, 6))
//case: first_plus(&[1, 2, 3, 4]) ||| un (src_first_plus 50 [1; 2; 3; 4])
//case: first_plus(&[]) ||| un (src_first_plus 50 [])
//case: sum_sq(&[1, 2, 3], 10) ||| src_sum_sq [1; 2; 3] 10
//case: sum_sq(&[], 10) ||| src_sum_sq [] 10
// `slice.windows(3)`, slice patterns, a `static`, `==` on an enum with a field, `<iterator>.fold(..)` as a fuelled driver,
// `slice.iter().map(..).fold(..)` as fold_left, `&array` where a slice is expected, `unwrap()` in a fuelled function
pub static EMPTY: &[i32; 0] = &[];
#[derive(Clone, Copy, PartialEq, Debug)]
pub enum Kind { A, B { k: i32 }, End }
pub struct It<'a> { w: core::slice::Windows<'a, i32>, pts: &'a [i32], kind: Kind, stop: bool }
impl<'a> It<'a> {
    pub fn new(p: &'a [i32]) -> Self {
        if let [a, b] = p {
            It { w: EMPTY.windows(3), pts: p, kind: Kind::B { k: *a + *b }, stop: false }
        } else {
            It { w: p.windows(3), pts: p, kind: Kind::A, stop: p.is_empty() }
        }
    }
}
impl Iterator for It<'_> {
    type Item = i32;
    fn next(&mut self) -> Option<i32> {
        if self.stop {
            return None;
        }
        if let Some([a, b, c]) = self.w.next() {
            Some(a * 100 + b * 10 + c)
        } else if self.kind != Kind::End && self.kind != (Kind::B { k: 0 }) {
            let l = *self.pts.last()?;
            self.kind = Kind::End;
            Some(l)
        } else {
            self.stop = true;
            Some(-1)
        }
    }
}
pub fn total(p: &[i32]) -> i32 { It::new(p).fold(0, |acc, v| acc * 2 + v) }
pub fn arr_total(t: [i32; 3]) -> i32 { It::new(&t).fold(1, |acc, v| acc + v) }
pub fn first_plus(p: &[i32]) -> i32 { let t = total(p); *p.first().unwrap() + t }
pub fn sum_sq(p: &[i32], k: i32) -> i32 { p.iter().map(|v| *v * *v + k).fold(0, |acc, v| acc + v) }
