//cfg: tyvar J Z
//cfg: assoc pull fnmut(J)->Option<i32>
//cfg: assoc skip fnmut(J,usize)->Option<i32>
//cfg: struct @ Cnt
//cfg: fn @ Cnt::new
//cfg: fn @ Cnt::Src::pull
//cfg: fn @ Cnt::Src::skip
//cfg: struct @ Win
//cfg: fn @ Win::make
//cfg: fn @ Win::next
//cfg: fn @ peek_third
//grid: { let mut w = Win::make(Cnt::new(10), {k}); (w.next(), w.next(), w.next(), w.left) } ||| let pl := fun s : Z => (s + 1, Some s) in let sk := fun (s n : Z) => (s + n + 1, Some (s + n)) in let w := src_Win_make sk 10 {k} in let '(w1, a) := src_Win_next pl w in let '(w2, b) := src_Win_next pl w1 in let '(w3, c) := src_Win_next pl w2 in (a, b, c, Win_left w3) ||| k=0,1,3
//grid: peek_third({c}) ||| src_peek_third {c} ||| c=0,5
// `&mut self` methods of a generic type parameter as function parameters (state passing), a `&mut self` method called on a
// temporary, PhantomData-free generic struct
pub trait Src { fn pull(&mut self) -> Option<i32>; fn skip(&mut self, n: usize) -> Option<i32>; }
pub struct Cnt { pub v: i32 }
impl Cnt { pub fn new(v: i32) -> Self { Cnt { v } } }
impl Src for Cnt {
    fn pull(&mut self) -> Option<i32> { let r = self.v; self.v += 1; Some(r) }
    fn skip(&mut self, n: usize) -> Option<i32> { self.v += n as i32; self.pull() }
}
pub struct Win<J> { pub src: J, pub left: u32 }
impl<J: Src> Win<J> {
    pub fn make(mut s: J, k: usize) -> Self {
        if k > 0 {
            s.skip(k - 1);
        }
        Win { src: s, left: 2 }
    }
    pub fn next(&mut self) -> Option<i32> {
        if self.left == 0 {
            return None;
        }
        self.left -= 1;
        self.src.pull()
    }
}
pub fn peek_third(c: i32) -> Option<i32> { Cnt::new(c).skip(2) }
