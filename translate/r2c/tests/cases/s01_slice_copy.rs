//cfg: const @ K
//cfg: struct @ Bf
//cfg: fn @ Bf::mk
//cfg: fn @ Bf::put
//cfg: fn @ mid3
//cfg: fn @ kk
//pgrid: { let mut b = Bf::<6>::mk(); b.put({i}, {v}); b.d.to_vec() } ||| option_map Bf_d (src_Bf_put (src_Bf_mk 6) {i} {v}) ||| i=0,1,2,3; v=258,65535
//grid: mid3({v}).to_vec() ||| let '(a, b, c) := src_mid3 {v} in [a; b; c] ||| v=16909060,255
//case: kk() ||| src_kk
// `list[a..b].copy_from_slice(&array)` with computed bounds, `[lit; N]` for a const generic N, `array[a..b]` with literal
// bounds, `<Type>::CONST`
pub const K: usize = 2;
pub struct Bf<const N: usize> { pub d: [u8; N] }
impl<const N: usize> Bf<N> {
    pub const W: usize = 3;
    pub fn mk() -> Self { Bf { d: [7; N] } }
    pub fn put(&mut self, i: usize, v: u16) { self.d[i * K..i * K + K].copy_from_slice(&v.to_be_bytes()); }
}
pub fn mid3(v: u32) -> [u8; 3] { let mut r = [0; 3]; r.copy_from_slice(&v.to_be_bytes()[1..4]); r }
pub fn kk() -> usize { <usize>::MAX / 2 + K }
