//cfg: struct @ Mp
//cfg: struct @ Er
//cfg: fn @ Mp::items
//cfg: fn @ Mp::has
//cfg: fn @ Mp::pos
//cfg: fn @ Mp::rows_it as=src_Mp_rows
//cfg: fn @ chk
//cfg: fn @ both
//case: Mp { data: "a\0cf\0x", base: 3 }.items().collect::<Vec<char>>().iter().map(|c| *c as u32).collect::<Vec<u32>>() ||| match src_Mp_items 20 (Build_Mp [97; 0; 99; 102; 0; 120] 3) with Some l => l | None => [] end
//case: (Mp { data: "ab\0df", base: 3 }.has('e'), Mp { data: "ab\0df", base: 3 }.has('g')) ||| (match src_Mp_has 20 (Build_Mp [97; 98; 0; 100; 102] 3) 101 with Some b => b | None => false end, match src_Mp_has 20 (Build_Mp [97; 98; 0; 100; 102] 3) 103 with Some b => b | None => true end)
//case: (Mp { data: "ab\0df", base: 3 }.pos('f'), Mp { data: "ab\0df", base: 3 }.pos('z')) ||| (un (src_Mp_pos 20 (Build_Mp [97; 98; 0; 100; 102] 3) 102), un (src_Mp_pos 20 (Build_Mp [97; 98; 0; 100; 102] 3) 122))
//case: Mp { data: "ab\r\nc\n", base: 3 }.rows().iter().map(|(l, y)| (l.len(), *y)).collect::<Vec<(usize, i32)>>() ||| map (fun p => (Z.of_nat (length (fst p)), snd p)) (src_Mp_rows (Build_Mp [97; 98; 13; 10; 99; 10] 3))
//case: (both(1, 2).is_ok(), both(-1, 2).is_ok(), both(1, -2).is_ok(), both(5, 6).ok()) ||| (match src_both 1 2 with inl _ => true | inr _ => false end, match src_both (-1) 2 with inl _ => true | inr _ => false end, match src_both 1 (-2) with inl _ => true | inr _ => false end, match src_both 5 6 with inl v => Some v | inr _ => None end)
// a `core::iter::from_fn` generator with captured mutable state and `.flatten()` over char ranges as the list it yields,
// list consumers, a `.map(move |..| ..)` over `str::split` with a captured mutable counter, `?` on Results
pub struct Mp<'a> { pub data: &'a str, pub base: i32 }
#[derive(Debug, PartialEq, Clone, Copy)]
pub struct Er;
impl<'a> Mp<'a> {
    pub fn items(&self) -> impl Iterator<Item = char> + '_ {
        let mut chars = self.data.chars();
        core::iter::from_fn(move || {
            let range = match chars.next()? {
                '\0' => {
                    let start = chars.next()?;
                    let end = chars.next()?;
                    start..=end
                }
                c => c..=c,
            };
            Some(range)
        })
        .flatten()
    }
    pub fn has(&self, c: char) -> bool { self.items().any(|v| v == c) }
    pub fn pos(&self, c: char) -> usize {
        self.items().enumerate().find(|(_, v)| c == *v).map(|(index, _)| index).unwrap_or(99)
    }
    pub fn rows(&self) -> Vec<(&str, i32)> { self.rows_it().collect() }
    fn rows_it(&self) -> impl Iterator<Item = (&str, i32)> {
        let mut y = self.base;
        self.data.split('\n').map(move |line| {
            let line = line.strip_suffix('\r').unwrap_or(line);
            let r = (line, y);
            y += 10;
            r
        })
    }
}
fn chk(a: i32) -> Result<i32, Er> { if a < 0 { Err(Er) } else { Ok(a * 2) } }
pub fn both(a: i32, b: i32) -> Result<i32, Er> { let x = chk(a)?; let y = chk(b)?; Ok(x + y) }
