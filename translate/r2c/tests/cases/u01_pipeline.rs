//cfg: struct @ Cnt
//cfg: fn @ Cnt::new
//cfg: fn @ Cnt::Iterator::next
//cfg: fn @ pipe
//cfg: fn @ chk
//cfg: struct @ St
//cfg: fn @ St::bump
//case: pipe(5, &[true, false, true, true]) ||| un (src_pipe 20 5 [true; false; true; true])
//case: pipe(2, &[true, true, true, true]) ||| un (src_pipe 20 2 [true; true; true; true])
//case: pipe(0, &[true]) ||| un (src_pipe 20 0 [true])
//pgrid: chk({a}) ||| src_chk {a} ||| a=-1,0,4
//pgrid: { let mut s = St { v: {a} }; s.bump(); s.v } ||| option_map St_v (src_St_bump (Build_St {a})) ||| a=-3,3,100
// an iterator value driven to a list (`zip`), `filter_map`, `fold` on lists; `panic!` paths (None: partial functions)
pub struct Cnt { i: i32, n: i32 }
impl Cnt { pub fn new(n: i32) -> Self { Cnt { i: 0, n } } }
impl Iterator for Cnt {
    type Item = i32;
    fn next(&mut self) -> Option<i32> { if self.i < self.n { self.i += 1; Some(self.i) } else { None } }
}
pub fn pipe(n: i32, flags: &[bool]) -> i32 {
    Cnt::new(n).zip(flags.iter()).filter_map(|(v, f)| if *f { Some(v) } else { None }).fold(0, |a, v| a * 10 + v)
}
pub fn chk(a: i32) -> i32 {
    if a < 0 {
        panic!("negative");
    }
    a * 2
}
pub struct St { pub v: i32 }
impl St {
    pub fn bump(&mut self) {
        if self.v > 50 {
            panic!("too big");
        }
        self.v += 1;
    }
}
