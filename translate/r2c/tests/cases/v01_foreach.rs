//cfg: struct @ Tr3
//cfg: fn @ Tr3::shift
//cfg: fn @ Tr3::bad
//grid: { let mut t = Tr3 { v: [1, 2, 3], k: 5 }; t.shift({d}); (t.v[0], t.v[1], t.v[2], t.k) } ||| let t := src_Tr3_shift (Build_Tr3 (1, 2, 3) 5) {d} in (Tr3_v t, Tr3_k t) ||| d=-4,0,10
//case: { let mut t = Tr3 { v: [9, 9, 9], k: 5 }; let r = t.bad(); (r, t.v[0], t.v[1], t.v[2]) } ||| let '(t, r) := src_Tr3_bad (Build_Tr3 (9, 9, 9) 5) in (r, Tr3_v t)
// `array.iter_mut().for_each(|v| *v += d)` unrolled over a 3-array (n-tuple update)
pub struct Tr3 { pub v: [i32; 3], pub k: i32 }
impl Tr3 {
    pub fn shift(&mut self, d: i32) { self.v.iter_mut().for_each(|v| *v += d * self.k); }
    pub fn bad(&mut self) -> i32 { let mut n = 0; self.v.iter_mut().for_each(|v| { n += 1; *v = n; }); n }
}
