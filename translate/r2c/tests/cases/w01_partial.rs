//cfg: struct @ Tb
//cfg: fn @ first
//cfg: fn @ need
//cfg: fn @ both
//cfg: fn @ pick
//cfg: fn @ guard
//cfg: fn @ caller
//cfg: fn @ Tb::at
//cfg: fn @ Tb::swap
//cfg: fn @ conv
//pgrid: first(&[{a}, 7], {i}) ||| src_first [{a}; 7] {i} ||| a=1,5; i=0,1,2
//pgrid: need({a}) ||| src_need {a} ||| a=-2,0,3
//pgrid: both(&[1, 2, 3], {i}, {j}) ||| src_both [1; 2; 3] {i} {j} ||| i=0,2,3; j=0,1,5
//pgrid: pick({a}) ||| src_pick {a} ||| a=0,1,2,3
//pgrid: guard(&[4, 0, 6], {f}, {i}) ||| src_guard [4; 0; 6] {f} {i} ||| f=true,false; i=0,1,2,3
//pgrid: caller({a}) ||| src_caller {a} ||| a=-1,0,2,3
//pgrid: { let t = Tb { d: [1, 2, 3, 4, 5, 0, 0, 0, 0], n: {n} }; t.at({i}) } ||| src_Tb_at (Build_Tb [1;2;3;4;5;0;0;0;0] {n}) {i} ||| n=3,5,6; i=0,2,4,5,9
//pgrid: { let mut t = Tb { d: [1, 2, 3, 4, 5, 0, 0, 0, 0], n: 5 }; t.swap({i}, {j}); t.d.to_vec() } ||| option_map Tb_d (src_Tb_swap (Build_Tb [1;2;3;4;5;0;0;0;0] 5) {i} {j}) ||| i=0,4,9; j=1,4,17
//pgrid: conv({a}) ||| src_conv {a} ||| a=-1,0,255,256
// partial functions: `[i]` on lists, `unwrap` / `expect`, `assert!` / `assert_eq!` / `unreachable!` / `panic!`, a partial right
// operand of `&&`, calls of partial functions; None = panic
pub struct Tb { pub d: [u8; 9], pub n: usize }
pub fn first(s: &[u8], i: usize) -> u8 { let x = s[i]; x + 1 }
pub fn need(a: i32) -> i32 {
    let o = if a > 0 { Some(a) } else { None };
    let r: Result<i32, ()> = if a < 0 { Err(()) } else { Ok(a) };
    r.expect("non negative") + o.unwrap()
}
pub fn both(s: &[u8], i: usize, j: usize) -> u8 { s[i] + s[j] }
pub fn pick(a: u8) -> u8 {
    match a {
        0 => 10,
        1 => { assert_eq!(a, 1); 11 }
        2 => { assert_ne!(a, 2, "two"); 12 }
        _ => unreachable!(),
    }
}
pub fn guard(s: &[u8], f: bool, i: usize) -> bool { f && s[i] > 0 }
pub fn caller(a: i32) -> i32 { if a == 0 { 0 } else { need(a) * 2 } }
impl Tb {
    pub fn at(&self, i: usize) -> u8 {
        assert!(i < self.n, "index {} out of {}", i, self.n);
        self.d[i]
    }
    pub fn swap(&mut self, i: usize, j: usize) {
        let t = self.d[i];
        self.d[i] = self.d[j];
        self.d[j] = t;
    }
}
pub fn conv(a: i32) -> u8 { u8::try_from(a).unwrap() }
