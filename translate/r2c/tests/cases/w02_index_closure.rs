//cfg: fn @ sum_at
//case: sum_at(&[1, 2, 3], &[0, 2]) ||| src_sum_at [1; 2; 3] [0; 2]
// `s[i]` inside a closure: its bounds check cannot be sequenced, the function is refused
pub fn sum_at(s: &[u8], idx: &[usize]) -> u8 { idx.iter().map(|i| s[*i]).fold(0, |a, b| a + b) }
