//cfg: assoc ALT bool
//cfg: struct @ Rw = Z newtype
//cfg: fn @ Rw::Ls<O>::ld
//cfg: fn @ Rw::Ls<O>::st
//cfg: fn @ Rw::Rd::load
//cfg: fn @ Rw::Rd::store
//cfg: fn @ Rw::From<u8>::from
//cfg: fn @ conv
//grid: <Rw as Rd>::load::<Be>(&[{a}, 7], {i}).map(|r| r.0) ||| src_Rw_load true [{a}; 7] {i} ||| a=1,200; i=0,1,2
//grid: <Rw as Rd>::load::<Le>(&[{a}, 7], {i}).map(|r| r.0) ||| src_Rw_load false [{a}; 7] {i} ||| a=1,200; i=0,1,2
//grid: { let mut b = [1u8, 2, 3]; let r = Rw({v}).store::<Be>(&mut b, {i}); (b.to_vec(), r.is_ok()) } ||| let '(b, r) := src_Rw_store true {v} [1; 2; 3] {i} in (b, match r with inl _ => true | inr _ => false end) ||| v=9,77; i=0,2,3
//grid: conv(Some({a})).map(|r| r.0) ||| src_conv (Some {a}) ||| a=3,130
//case: conv(None).map(|r| r.0) ||| src_conv None
// a trait-qualified static call `Ls::<O>::ld(..)` inside another impl of the same type (Self inferred from the signature; the
// callee's abstracted `O::ALT` is the caller's), with a `&mut` argument passed along; `.map(Into::into)` to a configured struct
pub trait Ord8 { const ALT: bool; }
pub struct Be; pub struct Le;
impl Ord8 for Be { const ALT: bool = true; }
impl Ord8 for Le { const ALT: bool = false; }
#[derive(Clone, Copy, Debug, PartialEq)]
pub struct Rw(pub u8);
pub trait Ls<O: Ord8>: Sized {
    fn ld(buffer: &[u8], index: usize) -> Option<Self>;
    fn st(self, buffer: &mut [u8], index: usize) -> Result<(), ()>;
}
impl<O: Ord8> Ls<O> for Rw {
    fn ld(buffer: &[u8], index: usize) -> Option<Self> {
        buffer.get(index).map(|b| if O::ALT { Rw(*b & 0x7f) } else { Rw(*b) })
    }
    fn st(self, buffer: &mut [u8], index: usize) -> Result<(), ()> {
        buffer.get_mut(index).ok_or(()).map(|b| *b = if O::ALT { self.0 & 0x7f } else { self.0 })
    }
}
pub trait Rd: Sized {
    fn load<O: Ord8>(buffer: &[u8], index: usize) -> Option<Self>;
    fn store<O: Ord8>(self, buffer: &mut [u8], index: usize) -> Result<(), ()>;
}
impl Rd for Rw {
    fn load<O: Ord8>(buffer: &[u8], index: usize) -> Option<Self> {
        Ls::<O>::ld(buffer, index)
    }
    fn store<O: Ord8>(self, buffer: &mut [u8], index: usize) -> Result<(), ()> {
        Ls::<O>::st(self, buffer, index)
    }
}
impl From<u8> for Rw { fn from(v: u8) -> Self { Rw(v & 0x7f) } }
pub fn conv(o: Option<u8>) -> Option<Rw> { o.map(Into::into) }
