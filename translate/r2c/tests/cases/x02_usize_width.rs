//cfg: fn @ start
//cfg: fn @ adv
//cfg: fn @ twice
//grid: start({i}) ||| src_start {i} ||| i=0,5,6148914691236517205,6148914691236517206,18446744073709551615
//grid: adv({i}, {n}) ||| src_adv {i} {n} ||| i=0,18446744073709551610; n=0,5,6
//grid: twice({i}) ||| src_twice {i} ||| i=1,9223372036854775807,9223372036854775808
//case: (Some(65535usize), None::<usize>, 65535usize) ||| (src_start (U__ := {| Casts.usize_max_w := 65535 |}) 21845, src_start (U__ := {| Casts.usize_max_w := 65535 |}) 21846, src_adv (U__ := {| Casts.usize_max_w := 65535 |}) 65530 10)
// checked_mul / saturating_add on usize take the width of usize as the implicit Casts.UsizeW (the cases run at 64 bit; the last
// case evaluates the 16-bit instance and only checks that it is accepted), callers inherit the parameter
pub fn start(index: usize) -> Option<usize> { index.checked_mul(3) }
pub fn adv(index: usize, n: usize) -> usize { index.saturating_add(n) }
pub fn twice(index: usize) -> Option<usize> { start(index).and_then(|s| s.checked_add(adv(index, 0))) }
