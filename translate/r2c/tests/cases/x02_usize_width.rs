//cfg: fn @ start
//cfg: fn @ adv
//cfg: fn @ twice
//cfg: fn @ idx
//cfg: fn @ conv
//cfg: fn @ both
//grid: start({i}) ||| src_start {i} ||| i=0,5,6148914691236517205,6148914691236517206,18446744073709551615
//grid: adv({i}, {n}) ||| src_adv {i} {n} ||| i=0,18446744073709551610; n=0,5,6
//grid: twice({i}) ||| src_twice {i} ||| i=1,9223372036854775807,9223372036854775808
//case: (Some(65535usize), None::<usize>, 65535usize) ||| (src_start (U__ := {| Casts.usize_max_w := 65535 |}) 21845, src_start (U__ := {| Casts.usize_max_w := 65535 |}) 21846, src_adv (U__ := {| Casts.usize_max_w := 65535 |}) 65530 10)
//grid: idx({a}) ||| src_idx {a} ||| a=-1,0,7,-2147483648
//grid: conv({a}) ||| src_conv {a} ||| a=-1,0,70000
//grid: both({a}) ||| src_both {a} ||| a=-1,3
//case: (65535usize, None::<usize>, 4464usize) ||| (src_idx (U__ := {| Casts.usize_max_w := 65535 |}) (-1), src_conv (U__ := {| Casts.usize_max_w := 65535 |}) 70000, src_idx (U__ := {| Casts.usize_max_w := 65535 |}) 70000)
// `x as usize` and `usize::try_from(x)` wrap / test at the width of usize too (round 6); a caller inherits the parameter;
// checked_mul / saturating_add on usize take the width of usize as the implicit Casts.UsizeW (the cases run at 64 bit; the last
// case evaluates the 16-bit instance and only checks that it is accepted), callers inherit the parameter
pub fn start(index: usize) -> Option<usize> { index.checked_mul(3) }
pub fn adv(index: usize, n: usize) -> usize { index.saturating_add(n) }
pub fn twice(index: usize) -> Option<usize> { start(index).and_then(|s| s.checked_add(adv(index, 0))) }
pub fn idx(a: i32) -> usize { a as usize }
pub fn conv(a: i32) -> Option<usize> { if let Ok(v) = usize::try_from(a) { Some(v) } else { None } }
pub fn both(a: i32) -> usize { idx(a) / 2 + 1 }
