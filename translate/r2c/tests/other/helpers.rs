pub fn helper(x: i32) -> i32 { x + 1 }
pub struct Q { pub v: u32 }
impl Q { pub fn get(&self) -> u32 { self.v / 2 } pub fn new(v: u32) -> Self { Q { v } } }
pub struct W { pub v: u32 }
impl W { pub fn geth(&self) -> i64 { (self.v / 4) as i64 } }
pub struct V { pub v: i32 }
impl V { pub fn get(&self) -> i32 { self.v / 2 } }
pub const KK: i32 = 7;
