#!/usr/bin/env python3
"""Regression suite of the translator (translate/r2c): the adversarial inputs of the 2026-09-28 audit
(notes/r2caudit/REPORT.md) and later additions.  Every tests/cases/<name>.rs is a fake source file with its own
one-module configuration (`//cfg:` lines, `@` = the file itself) and value cases:
  //case: <rust expression> ||| <gallina expression>          //grid: the same with {var} placeholders ||| var=v1,v2;..
  //pcase: / //pgrid: the same for a PARTIAL generated function (option-valued, None = panic): the gallina expression must
  evaluate to None exactly when the Rust expression panics, and to Some <the Rust value> otherwise.
For every test the translator must EITHER refuse the file (fail closed) OR every case must evaluate (coqc, vm_compute) to
the value the natively compiled Rust computes (in //case: and //grid: lines Rust panics are skipped).  tests/EXPECT.txt pins which of the two happens,
so that a construct that used to be translated does not silently start to be refused either (and vice versa).
usage: selftest.py [--update-expect] [test names...]        work dir: .build/r2c-selftest"""
import os, re, sys, glob, itertools, subprocess, json
HERE = os.path.dirname(os.path.abspath(__file__))
V = os.path.abspath(os.path.join(HERE, '..', '..', '..'))
W = os.path.join(V, '.build', 'r2c-selftest')
BIN = os.path.join(V, '.build', 'r2c', 'release', 'r2c')
args = [a for a in sys.argv[1:] if not a.startswith('--')]
update = '--update-expect' in sys.argv

def sh(cmd, **kw):
    return subprocess.run(cmd, capture_output=True, text=True, **kw)

for d in ['fake/src/other', 'cfgs', 'gen', 'evals', 'rs/src']:
    os.makedirs(os.path.join(W, d), exist_ok=True)
open(os.path.join(W, 'fake/src/other/helpers.rs'), 'w').write(open(os.path.join(HERE, 'other/helpers.rs')).read())
tests = []
for p in sorted(glob.glob(os.path.join(HERE, 'cases', '*.rs'))):
    name = os.path.basename(p)[:-3]
    if args and name not in args:
        continue
    src = open(p).read()
    cfg, cases = [], []
    for l in src.splitlines():
        l = l.strip()
        if l.startswith('//cfg:'):
            cfg.append(l[6:].strip())
        elif l.startswith('//case:') or l.startswith('//pcase:'):
            part = l.startswith('//pcase:')
            a, b = l[l.index(':') + 1:].split('|||'); cases.append((a.strip(), ('@P@' if part else '') + b.strip()))
        elif l.startswith('//grid:') or l.startswith('//pgrid:'):
            part = l.startswith('//pgrid:')
            a, b, g = l[l.index(':') + 1:].split('|||')
            if part:
                b = '@P@' + b.strip()
            vs = []
            for part in g.split(';'):
                part = part.strip()
                if part:
                    k, v = part.split('='); vs.append((k.strip(), [x.strip() for x in v.split(',')]))
            for combo in itertools.product(*[v for _, v in vs]):
                ra, cb = a.strip(), b.strip()
                for (k, _), val in zip(vs, combo):
                    lit = '(%s)' % val if val.startswith('-') else val
                    ra = ra.replace('{{%s}}' % k, '{ %s }' % lit).replace('{%s}' % k, lit); cb = cb.replace('{%s}' % k, lit)
                cases.append((ra, cb))
    tests.append((name, src, cfg, cases))
    open(os.path.join(W, 'fake/src', name + '.rs'), 'w').write(src)
    open(os.path.join(W, 'cfgs', name + '.txt'), 'w').write('\n'.join(['module T_' + name] + [c.replace('@', 'src/%s.rs' % name) for c in cfg]) + '\n')

# ---- translator
status, why = {}, {}
for f in glob.glob(os.path.join(W, 'gen', '*')):
    os.remove(f)
for name, *_ in tests:
    p = sh(['timeout', '120', BIN, os.path.join(W, 'fake'), os.path.join(W, 'cfgs', name + '.txt'), os.path.join(W, 'gen')])
    if p.returncode != 0:
        status[name] = 'refused'; why[name] = ' | '.join(l for l in p.stderr.splitlines())[:300]

# ---- native Rust
run = [(n, s, c, cs) for n, s, c, cs in tests if n not in status]
main = ['#![allow(unused, dead_code, unused_parens, unused_mut, unreachable_patterns, unreachable_code, arithmetic_overflow, overflowing_literals, clippy::all)]',
        'use std::panic::{catch_unwind, AssertUnwindSafe};']
for name, *_ in run:
    main.append('#[path="%s/fake/src/%s.rs"] mod %s;' % (W, name, name))
main.append('#[path="%s/fake/src/other/helpers.rs"] mod other_helpers;' % W)
main.append('fn main(){ std::panic::set_hook(Box::new(|_|{}));')
for name, src, cfg, cases in run:
    main.append('  { use %s::*;' % name)
    for i, (ra, cb) in enumerate(cases):
        main.append('    match catch_unwind(AssertUnwindSafe(|| { %s })) { Ok(v) => println!("%s#%d => {:?}", v), Err(_) => println!("%s#%d => PANIC") }' % (ra, name, i, name, i))
    main.append('  }')
main.append('}')
open(os.path.join(W, 'rs/src/main.rs'), 'w').write('\n'.join(main) + '\n')
open(os.path.join(W, 'rs/Cargo.toml'), 'w').write('[package]\nname="rs"\nversion="0.1.0"\nedition="2021"\n[workspace]\n[profile.release]\noverflow-checks=true\ndebug-assertions=true\nopt-level=1\n')
env = dict(os.environ, CARGO_NET_OFFLINE='true', CARGO_TARGET_DIR=os.path.join(W, 'target_rs'))
b = sh(['timeout', '900', 'cargo', 'build', '--release', '--offline', '-j4', '-q'], cwd=os.path.join(W, 'rs'), env=env)
rust = {}
if b.returncode != 0:
    print('selftest: the native harness does not build'); print(b.stderr[-4000:]); sys.exit(3)
r = sh(['timeout', '300', os.path.join(W, 'target_rs/release/rs')])
for l in r.stdout.splitlines():
    if ' => ' in l:
        k, v = l.split(' => ', 1); rust[k] = v

def norm(s):
    s = s.replace('%Z', ''); s = re.sub(r'[(),;\[\]]', ' ', s); s = re.sub(r'\btt\b', '', s); s = re.sub(r'- (\d)', r'-\1', s)
    return ' '.join(s.split())

for name, src, cfg, cs in run:
    txt = open(os.path.join(W, 'gen', 'T_%s.v' % name)).read()
    ev = txt + '\n#[local] Existing Instance Casts.usize64_w.\nDefinition un (o : option Z) : Z := match o with Some v => v | None => (-999999) end.\nDefinition obind {A B} (o : option A) (f : A -> option B) : option B := match o with Some a => f a | None => None end.\n' + '\n'.join('Eval vm_compute in (%s).' % cb.replace('@P@', '') for _, cb in cs) + '\n'
    ef = os.path.join(W, 'evals', 'E_%s.v' % name)
    open(ef, 'w').write(ev)
    c = sh(['timeout', '300', 'coqc', '-Q', os.path.join(V, 'coq'), 'EG', ef])
    if c.returncode != 0:
        status[name] = 'coq-error'; why[name] = c.stderr.strip().replace('\n', ' ')[:300]; continue
    outs = re.findall(r'=\s(.*?)\n\s+:\s', c.stdout, flags=re.S)
    if len(outs) != len(cs):
        status[name] = 'parse-problem'; continue
    bad = []
    for i, ((ra, cb), o) in enumerate(zip(cs, outs)):
        rv = rust.get('%s#%d' % (name, i), '?')
        if cb.startswith('@P@'):
            want = 'None' if rv == 'PANIC' else ('Some ' + norm(rv)).strip()
            if rv == '?' or norm(o) != want:
                bad.append('%s => rust %s | coq %s' % (ra, rv, norm(o)))
        elif rv != 'PANIC' and norm(rv) != norm(o):
            bad.append('%s => rust %s | coq %s' % (ra, rv, norm(o)))
    status[name] = 'ok' if not bad else 'DISAGREE'
    if bad:
        why[name] = ' ;; '.join(bad[:3])

# ---- configuration-level tests (no value cases): must be refused
m = sh(['timeout', '60', BIN, os.path.join(W, 'fake'), os.path.join(HERE, 'manual', 'dup.txt'), os.path.join(W, 'gen')])
if not args:
    status['manual_dup'] = 'refused' if m.returncode != 0 else 'ok'

ef = os.path.join(HERE, 'EXPECT.txt')
if update:
    old = {}
    if os.path.exists(ef):
        old = dict(l.split() for l in open(ef) if l.strip())
    old.update(status)
    open(ef, 'w').write(''.join('%s %s\n' % kv for kv in sorted(old.items())))
expect = dict(l.split() for l in open(ef) if l.strip()) if os.path.exists(ef) else {}
fail = 0
for n in sorted(status):
    s = status[n]
    e = expect.get(n)
    flag = ''
    if s not in ('ok', 'refused'):
        flag = '  <== FAIL'; fail += 1
    elif e and e != s:
        flag = '  <== CHANGED (expected %s)' % e; fail += 1
    print('%-22s %-10s %s%s' % (n, s, why.get(n, '')[:200] if s != 'ok' else '', flag))
print('selftest: %d tests, %d failures' % (len(status), fail))
sys.exit(1 if fail else 0)
