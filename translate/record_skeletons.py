#!/usr/bin/env python3
"""Builder helper (NOT run by ./check): prints the `recorded` / `unmodelled_fns` tables of coq/Model/Overflow.v
from the current tree, using the mapping below (Rust function -> the `_ok` predicate that models its sites).
Run it after re-reading the changed Rust function and updating its `_ok`; paste the output over the old tables."""
import os, sys, re
sys.path.insert(0, os.path.dirname(os.path.abspath(__file__)))
import gen_arith as G

P, S, R = 'core/src/geometry/point.rs', 'core/src/geometry/size.rs', 'core/src/primitives/rectangle/mod.rs'
GM, ST = 'src/geometry/mod.rs', 'src/primitives/primitive_style.rs'
C, E = 'src/primitives/circle/mod.rs', 'src/primitives/ellipse/mod.rs'
Q, CR = 'src/primitives/rounded_rectangle/ellipse_quadrant.rs', 'src/primitives/rounded_rectangle/corner_radii.rs'
LM, LP, B, T = 'src/primitives/line/mod.rs', 'src/primitives/line/points.rs', 'src/primitives/line/bresenham.rs', 'src/primitives/line/thick_points.rs'
IP, LE, LJ = 'src/primitives/line/intersection_params.rs', 'src/primitives/common/linear_equation.rs', 'src/primitives/common/line_join.rs'
TR, TM, TT = 'src/primitives/triangle/mod.rs', 'src/text/mod.rs', 'src/text/text.rs'
IR, CO = 'src/image/image_raw.rs', 'src/iterator/contiguous.rs'
MT = 'src/mono_font/mono_text_style.rs'

MODEL = {
    (P, 'Point::abs'): 'point_abs_ok', (P, 'Point::sub_size'): 'point_sub_size_ok',
    (P, 'Point::component_mul'): 'point_component_mul_ok', (P, 'Point::component_div'): 'point_component_div_ok',
    (P, 'Add for Point::add'): 'point_add_ok', (P, 'Add for Point::add#2'): 'point_add_size_ok',
    (P, 'AddAssign for Point::add_assign'): 'point_add_ok', (P, 'AddAssign for Point::add_assign#2'): 'point_add_size_ok',
    (P, 'Sub for Point::sub'): 'point_sub_ok', (P, 'SubAssign for Point::sub_assign'): 'point_sub_ok',
    (P, 'SubAssign for Point::sub_assign#2'): 'point_sub_size_ok',
    (P, 'Mul for Point::mul'): 'point_mul_ok', (P, 'MulAssign for Point::mul_assign'): 'point_mul_ok',
    (P, 'Div for Point::div'): 'point_div_ok', (P, 'DivAssign for Point::div_assign'): 'point_div_ok',
    (P, 'Neg for Point::neg'): 'point_neg_ok',
    (S, 'Size::saturating_add'): 'size_saturating_ok', (S, 'Size::saturating_sub'): 'size_saturating_ok',
    (S, 'Size::div_u32'): 'size_div_ok', (S, 'Size::from_bounding_box'): 'from_bounding_box_ok',
    (S, 'Size::component_mul'): 'size_component_mul_ok', (S, 'Size::component_div'): 'size_component_div_ok',
    (S, 'Add for Size::add'): 'size_add_ok', (S, 'AddAssign for Size::add_assign'): 'size_add_ok',
    (S, 'Sub for Size::sub'): 'size_sub_ok', (S, 'SubAssign for Size::sub_assign'): 'size_sub_ok',
    (S, 'Mul for Size::mul'): 'size_mul_ok', (S, 'MulAssign for Size::mul_assign'): 'size_mul_ok',
    (S, 'DivAssign for Size::div_assign'): 'size_div_ok',
    (R, 'center_offset'): 'center_offset_ok', (R, 'Rectangle::center'): 'center_ok',
    (R, 'Rectangle::bottom_right'): 'bottom_right_ok',
    (R, 'Rectangle::resize_width_mut'): 'resized_width_ok', (R, 'Rectangle::resize_height_mut'): 'resized_height_ok',
    (R, 'Rectangle::offset'): 'offset_ok', (R, 'Rectangle::anchor_x'): 'anchor_x_ok', (R, 'Rectangle::anchor_y'): 'anchor_y_ok',
    (R, 'Rectangle::rows'): 'rows_columns_ok', (R, 'Rectangle::columns'): 'rows_columns_ok',
    (GM, 'PointExt for Point::rotate_90'): 'rotate_90_ok', (GM, 'PointExt for Point::dot_product'): 'dot_product_ok',
    (GM, 'PointExt for Point::determinant'): 'determinant_ok', (GM, 'PointExt for Point::length_squared'): 'length_squared_ok',
    (ST, 'PrimitiveStyle::outside_stroke_width'): 'stroke_widths_ok', (ST, 'PrimitiveStyle::inside_stroke_width'): 'stroke_widths_ok',
    (ST, 'PrimitiveStyle::stroke_area'): 'rect_stroke_area_ok', (ST, 'PrimitiveStyle::fill_area'): 'rect_fill_area_ok',
    (C, 'Circle::center_2x'): 'circle_center_2x_ok', (C, 'OffsetOutline for Circle::offset'): 'circle_offset_ok',
    (C, 'ContainsPoint for Circle::contains'): 'circle_contains_ok', (C, 'Transform for Circle::translate'): 'point_add_ok',
    (C, 'Transform for Circle::translate_mut'): 'point_add_ok', (C, 'diameter_to_threshold'): 'diameter_to_threshold_ok',
    (E, 'OffsetOutline for Ellipse::offset'): 'ellipse_offset_ok', (E, 'center_2x'): 'ellipse_center_2x_ok',
    (E, 'ContainsPoint for Ellipse::contains'): 'ellipse_contains_ok', (E, 'Transform for Ellipse::translate'): 'point_add_ok',
    (E, 'Transform for Ellipse::translate_mut'): 'point_add_ok', (E, 'EllipseContains::new'): 'ellipse_contains_new_ok',
    (E, 'EllipseContains::contains'): 'ellipse_contains_point_ok',
    (Q, 'EllipseQuadrant::new'): 'ellipse_quadrant_new_ok', (Q, 'ContainsPoint for EllipseQuadrant::contains'): 'ellipse_quadrant_contains_ok',
    (CR, 'CornerRadii::confine'): 'confine_ok',
    (LM, 'Line::with_delta'): 'point_add_ok', (LM, 'Line::perpendicular'): 'perpendicular_ok', (LM, 'Line::midpoint'): 'midpoint_ok',
    (LM, 'Line::delta'): 'line_delta_ok', (LM, 'Line::extents'): 'OverflowWalk.extents_ok', (LM, 'Transform for Line::translate'): 'point_add_ok',
    (LM, 'Transform for Line::translate_mut'): 'point_add_ok',
    (LP, 'Iterator for Points::next'): 'line_points_ok',
    (B, 'BresenhamParameters::new'): 'bparams_new_ok', (B, 'BresenhamParameters::increase_error'): 'increase_error_ok',
    (B, 'BresenhamParameters::decrease_error'): 'decrease_error_ok', (B, 'BresenhamParameters::mirror_extra_points'): 'next_all_ok',
    (B, 'Bresenham::next'): 'bnext_ok', (B, 'Bresenham::next_all'): 'next_all_ok', (B, 'Bresenham::previous_all'): 'previous_all_ok',
    (B, 'major_length'): 'major_length_ok',
    (T, 'ParallelsIterator::new'): 'parallels_new_ok, OverflowWalk.parallels_new_so_ok', (T, 'Iterator for ParallelsIterator::next'): 'parallels_next_ok, OverflowWalk.parallels_step_ok',
    (T, 'Iterator for ThickPoints::next'): 'thick_points_next_ok, OverflowWalk.thick_points_ok',
    (IP, 'IntersectionParams::nearly_colinear_has_error'): 'nearly_colinear_ok', (IP, 'IntersectionParams::intersection'): 'ip_intersection_ok',
    (LE, 'const NORMAL_VECTOR_SCALE'): 'constant item, evaluated by rustc', (LE, 'LinearEquation::distance'): 'le_point_distance_ok',
    (LJ, 'LineJoin::from_points'): 'miter_ok, join_edges_ok, OverflowWalk.join_from_points_ok',
    (TR, 'ContainsPoint for Triangle::contains'): 'triangle_contains_ok', (TR, 'Triangle::area_doubled'): 'area_doubled_ok',
    (TR, 'Transform for Triangle::translate_mut'): 'point_add_ok',
    (TM, 'LineHeight::to_absolute'): 'line_height_ok',
    (TT, 'Transform for Text::translate'): 'point_add_ok', (TT, 'Transform for Text::translate_mut'): 'point_add_ok',
    (TT, 'Text::line_height'): 'line_height_ok', (TT, 'Text::lines'): 'text_line_ok',
    (IR, 'ImageRaw::new'): 'image_new_ok', (IR, 'ImageRaw::data_width'): 'data_width_ok', (IR, 'bytes_per_row'): 'bytes_per_row_ok',
    (IR, 'ImageDrawable for ImageRaw::draw'): 'image_draw_ok', (IR, 'ImageDrawable for ImageRaw::draw_sub_image'): 'image_draw_sub_ok',
    (IR, 'GetPixel for ImageRaw::pixel'): 'image_pixel_ok', (IR, 'ContiguousPixels::new'): 'cpix_new_ok',
    (IR, 'Iterator for ContiguousPixels::next'): 'cpix_next_ok',
    (MT, 'MonoTextStyle::line_elements'): 'line_elements_ok', (MT, 'MonoTextStyle::baseline_offset'): 'baseline_offset_ok',
    (MT, 'TextRenderer for MonoTextStyle::draw_string'): 'draw_string_plain_ok (and line_elements_ok)',
    (MT, 'TextRenderer for MonoTextStyle::draw_whitespace'): 'draw_whitespace_ok',
    (MT, 'TextRenderer for MonoTextStyle::measure_string'): 'measure_string_ok',
    (P, 'Index for Point::index'): 'point_index_ok', (S, 'Index for Size::index'): 'point_index_ok',
    (P, 'From for Point::from#2'): 'from_array2_ok', (P, 'From for Point::from#3'): 'from_array2_ok',
    (P, 'From for Point::from#4'): 'from_array2_ok', (P, 'From for Point::from#5'): 'from_array2_ok',
    (S, 'From for Size::from#2'): 'from_array2_ok', (S, 'From for Size::from#3'): 'from_array2_ok',
    (S, 'From for Size::from#4'): 'from_array2_ok', (S, 'From for Size::from#5'): 'from_array2_ok',
    (P, 'TryFrom for ( u32 , u32 )::try_from'): 'try_from_ok', (P, 'TryFrom for Point::try_from'): 'try_from_ok',
    (P, 'TryFrom for [ u32 ; 2 ]::try_from'): 'try_from_ok', (P, 'TryFrom for Point::try_from#2'): 'try_from_ok (and from_array2_ok)',
    (P, 'TryFrom for Point::try_from#3'): 'try_from_ok (and from_array2_ok)',
    (TR, 'Triangle::from_slice'): 'tri_from_slice_ok', (TR, 'Triangle::sorted_clockwise'): 'sorted_clockwise_ok',
    (TR, 'Triangle::is_collapsed'): 'is_collapsed_step_ok', (IR, 'ImageRaw::new_const'): 'image_new_const_ok',
    (LE, 'OriginLinearEquation::with_angle'): 'with_angle_ok',
    (CO, 'Cropped::new'): 'cropped_new_ok', (CO, 'Iterator for Cropped::next'): 'cropped_next_ok',
}


def main():
    rows = []
    for f in G.FILES:
        for q, line, sk in G.functions(f):
            rows.append((f, q, line, ' '.join(sk)))
    seen = set()
    rec, un = [], []
    for f, q, line, sk in rows:
        if re.fullmatch(r'[0-9 ()]*', sk):
            continue
        if (f, q) in MODEL:
            seen.add((f, q))
            rec.append('  (%s, %s, %s, %s)' % tuple(G.coq_str(x) for x in (f, q, sk, MODEL[(f, q)])))
        else:
            un.append('  (%s, %s)   (* %s:%d  %s *)' % (G.coq_str(f), G.coq_str(q), os.path.basename(f), line, sk))
    missing = set(MODEL) - seen
    if missing:
        sys.exit('mapping names functions that no longer exist or have a literal-only skeleton: %r' % sorted(missing))
    out = ['Definition recorded : list (string * string * string * string) := [', ';\n'.join(rec), '].\n',
           'Definition unmodelled_fns : list (string * string) := [',
           # the comment must come after the separator
           '\n'.join(re.sub(r'\)   \(\*', ');   (*', u) if i + 1 < len(un) else u for i, u in enumerate(un)), '].']
    txt = '\n'.join(out) + '\n'
    if '--write' in sys.argv:
        # replace the two tables in coq/Model/Overflow.v in place
        mp = os.path.join(os.path.dirname(os.path.abspath(__file__)), '..', 'coq', 'Model', 'Overflow.v')
        m = open(mp).read()
        a = m.index('Definition recorded :')
        b = m.index('(* a skeleton made of integer literals')
        open(mp, 'w').write(m[:a] + txt + '\n' + m[b:])
    else:
        print(txt)


if __name__ == '__main__':
    main()
